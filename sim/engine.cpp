#include "engine.h"
#include "catalog.h"
#include "getters.h"
#include <stdlib.h>
#include <string.h>
#include <unistd.h>

Engine *g_engine = nullptr;

std::vector<uint8_t> j_bytes(const J &a) {
	std::vector<uint8_t> v;
	if (a.is_str()) return unhex(a.s);
	for (size_t i = 0; i < a.size(); i++) v.push_back((uint8_t) a[i].num());
	return v;
}
J bytes_j(const std::vector<uint8_t> &v) { J a = J::arr(); for (uint8_t b : v) a.push((int) b); return a; }
t_bidib_node_address j_node(const J &a) {
	t_bidib_node_address n = {0, 0, 0};
	if (a.size() > 0) n.top = (uint8_t) a[0].num();
	if (a.size() > 1) n.sub = (uint8_t) a[1].num();
	if (a.size() > 2) n.subsub = (uint8_t) a[2].num();
	return n;
}

J sched_json(Rng &r, const std::string &tier, int n_tasks_hint, bool want_fn_yield) {
	J s = J::obj();
	int pol;
	uint64_t x = r.below(100);
	if (n_tasks_hint <= 1) pol = x < 60 ? sim::P_RANDOM : x < 80 ? sim::P_STICKY : x < 90 ? sim::P_STARVE : sim::P_PCT;
	else pol = x < 35 ? sim::P_RANDOM : x < 65 ? sim::P_PCT : x < 85 ? sim::P_STICKY : sim::P_STARVE;
	s.set("policy", pol);
	s.set("seed", (long long) (r.next() >> 1));
	s.set("pct_d", (int) r.range(1, 4));
	s.set("pct_k", (int) r.range(200, 4000));
	s.set("sticky", (int) r.range(600, 980));
	int fy = 0;
	if (want_fn_yield && r.chance(500)) fy = (int) r.range(5, tier == "thorough" ? 120 : 60);
	s.set("fn_yield", fy);
	s.set("glib_yield", true);
	s.set("libc_yield", true);
	s.set("starve_task", (int) r.range(1, std::max(1, n_tasks_hint + 3)));
	s.set("starve_from_ms", (int) r.range(0, 500));
	s.set("starve_for_ms", (int) r.range(5, 400));
	int jit = r.chance(700) ? 0 : (int) r.range(1, 3000);
	s.set("jitter_us", jit);
	{ uint64_t g = r.below(100); s.set("grid_us", jit ? 1 : g < 45 ? 5000 : g < 60 ? 1000 : 1); }
	// descheduling fault at lock / unlock points (one run in three), never during the start-up handshake (its probe windows are legitimate timeouts)
	if (r.chance(330)) { static const int mx[] = {200, 5000, 12000, 30000}; s.set("preempt_permille", (int) r.range(3, 60)); s.set("preempt_max_us", mx[r.below(4)]); }
	s.set("epoch_phase_us", (long long) r.below(1000000));
	return s;
}

static sim::SchedParams parse_sched(const J &plan) {
	sim::SchedParams p;
	const J &s = plan["sched"];
	p.policy = (int) s.geti("policy", sim::P_RANDOM);
	p.seed = (uint64_t) s.geti("seed", 1);
	p.pct_d = (int) s.geti("pct_d", 2);
	p.pct_k = (int) s.geti("pct_k", 2000);
	p.sticky_permille = (int) s.geti("sticky", 900);
	p.fn_yield_permille = (int) s.geti("fn_yield", 0);
	p.glib_yield = s.getb("glib_yield", false);
	p.libc_yield = s.getb("libc_yield", false);
	p.starve_task = (int) s.geti("starve_task", -1);
	p.starve_from_us = (uint64_t) s.geti("starve_from_ms", 0) * 1000;
	p.starve_for_us = (uint64_t) s.geti("starve_for_ms", 0) * 1000;
	p.jitter_us = (uint32_t) s.geti("jitter_us", 0);
	p.grid_us = (uint32_t) s.geti("grid_us", 1);
	p.preempt_permille = (uint32_t) s.geti("preempt_permille", 0);
	p.preempt_max_us = (uint32_t) s.geti("preempt_max_us", 0);
	p.epoch0_us = 1700000000ULL * 1000000ULL + (uint64_t) s.geti("epoch_phase_us", 0);
	p.max_steps = (uint64_t) s.geti("max_steps", 4000000);
	p.max_time_us = (uint64_t) s.geti("max_time_s", 900) * 1000000ULL;
	if (plan.has("decisions")) {
		p.have_decisions = true;
		const J &d = plan["decisions"];
		for (size_t i = 0; i < d.size(); i++) p.decisions.emplace_back((uint64_t) d[i][0].num(), (int) d[i][1].num());
	}
	return p;
}

// ------------------------------------------------------------------ callbacks given to the library
static uint8_t cb_read(int *ok) {
	sim::HarnessScope hs;
	sim::yield(sim::Y_CB);
	return g_engine->bus.on_read(ok);
}
static void cb_write(uint8_t *p, int32_t n) {
	sim::HarnessScope hs;
	sim::yield(sim::Y_CB);
	g_engine->bus.on_write(p, n);
}

[[noreturn]] void Engine::violate(const std::string &cls, const std::string &site, const std::string &detail) {
	sim::fail(cls.c_str(), site, detail);
}

void Engine::setup_bus() {
	const J &b = plan["bus"];
	bus = bus::Bus();
	const J &ns = b["nodes"];
	for (size_t i = 0; i < ns.size(); i++) {
		const J &n = ns[i];
		std::vector<uint8_t> uid = unhex(n.gets("uid", "00000000000000"));
		uid.resize(7);
		int idx = bus.add_node(j_bytes(n["addr"]), uid.data());
		bus::Node &nd = bus.nodes[(size_t) idx];
		const J &fs = n["features"];
		for (size_t k = 0; k < fs.size(); k++) nd.features.push_back({(uint8_t) fs[k][0].num(), (uint8_t) fs[k][1].num()});
		const J &ov = n["override"];
		for (size_t k = 0; k < ov.size(); k++) nd.feature_override[(uint8_t) ov[k][0].num()] = (uint8_t) ov[k][1].num();
		nd.pkt_capacity = (uint8_t) n.geti("cap", 64);
		nd.present = n.getb("present", true);
	}
	if (bus.nodes.empty()) { uint8_t u[7] = {0x80, 0, 0x0D, 1, 2, 3, 4}; bus.add_node({}, u); }
	bus.resp_delay_us = (uint64_t) b.geti("resp_delay_us", 1000);
	bus.auto_answer = b.getb("auto_answer", true);
	const J &af = b["answer_faults"];
	for (size_t i = 0; i < af.size(); i++) bus.answer_faults[(uint64_t) af[i][0].num()] = bus::fault_from(af[i][1]);
	const J &dat = b["drop_answers"];
	for (size_t i = 0; i < dat.size(); i++) bus.drop_answer_types.insert((int) dat[i].num());
	const J &tdl = b["type_delays"];
	for (size_t i = 0; i < tdl.size(); i++) bus.type_delays[(int) tdl[i][0].num()] = {(uint64_t) tdl[i][1].num(), (uint64_t) tdl[i][2].num() * 1000};
	bus.restart_count_real = b.getb("restart_count_real", false);
	const J &tdu = b["type_dup_once"];
	for (size_t i = 0; i < tdu.size(); i++) bus.type_dup_once.push_back({(uint64_t) tdu[i][0].num(), (uint64_t) tdu[i][1].num(), (uint64_t) tdu[i][2].num()});
	const J &tdo = b["type_delay_once"];
	for (size_t i = 0; i < tdo.size(); i++) bus.type_delay_once.push_back({(uint64_t) tdo[i][0].num(), (uint64_t) tdo[i][1].num(), (uint64_t) tdo[i][2].num() * 1000});
	const J &sw = b["slow_writes"];
	for (size_t i = 0; i < sw.size(); i++) bus.slow_writes[(uint64_t) sw[i][0].num()] = (uint64_t) sw[i][1].num();
}

void Engine::install_config(const J &cfg) {
	static int cfg_no = 0;
	cfgdir = std::string(SIM_VFS_PREFIX) + "/" + std::to_string(++cfg_no);
	sim::vfs_clear();
	static const char *names[3] = {"board", "track", "train"};
	static const char *files[3] = {"/bidib_board_config.yml", "/bidib_track_config.yml", "/bidib_train_config.yml"};
	for (int i = 0; i < 3; i++) {
		sim::VFile f;
		f.content = cfg.gets(names[i], "");
		const J &ft = cfg["faults"][names[i]];
		if (ft.is_obj()) {
			std::string k = ft.gets("kind");
			f.fault = k == "enoent" ? 1 : k == "truncate" ? 2 : k == "eio" ? 3 : 0;
			f.fault_at = (size_t) ft.geti("at", 0);
		}
		if (cfg.has(names[i]) || f.fault) sim::vfs_put(cfgdir + files[i], f);
	}
}

int Engine::do_start(const J &st) {
	std::string mode = st.gets("mode", "debug");
	unsigned flush_ms = (unsigned) st.geti("flush_ms", 0);
	bus.answers_enabled = !st.getb("silent_bus", false);
	// what the bus sent for an earlier session and nobody has read yet normally never arrives (the line is flushed); sessions that follow a
	// slow interface keep it: the late bytes are still on the line when the next session opens it
	if (!st.getb("keep_pending", false)) bus.pending.clear();
	bus.type_delays.erase(MSG_SYS_MAGIC);
	if (st.has("magic_delay_ms")) bus.type_delays[MSG_SYS_MAGIC] = {0, (uint64_t) st.geti("magic_delay_ms") * 1000};
	debug_mode = (mode == "debug" || mode == "debug_cfg");
	const char *dir = nullptr;
	if (st.has("config") && !plan["configs"][(size_t) st.geti("config")].is_null()) {
		install_config(plan["configs"][(size_t) st.geti("config")]);
		dir = cfgdir.c_str();
	}
	int r;
	sim::preempt_enable(false);    // the start-up handshake has legitimate probe windows: no descheduling fault inside it
	{
		sim::ApiScope api(mode == "serial" ? "bidib_start_serial" : "bidib_start_pointer");
		bidib_set_lowlevel_debug_mode(debug_mode);
		if (mode == "serial") {
			sim::SerialDev d; d.openable = st.getb("openable", true); d.read_byte = cb_read; d.write_n = cb_write;
			sim::serial_set(d);
			r = bidib_start_serial(st.getb("null_device") ? nullptr : SIM_FAKE_SERIAL_PATH, dir, flush_ms);
		} else {
			r = bidib_start_pointer(st.getb("null_read") ? nullptr : cb_read, st.getb("null_write") ? nullptr : cb_write, dir, flush_ms);
		}
	}
	start_ret = r;
	running = (r == 0);
	sim::preempt_enable(true);
	sim::hash_u64((uint64_t) r);
	return r;
}

void Engine::do_stop() {
	{
		sim::ApiScope api("bidib_stop");
		bidib_stop();
	}
	running = false;
	live_after_stop.push_back(sim::lib_live_bytes());
}

bool Engine::wait_quiescent(uint64_t max_ms) {
	for (uint64_t i = 0; i < max_ms * 2; i++) {
		if (bus.quiescent()) return true;
		uint64_t nt = bus.next_uplink_time();
		uint64_t now = sim::now_us();
		// sleep until the next scheduled uplink byte (bounded) so long delays do not cost thousands of polls
		uint64_t d = 500;
		if (nt != UINT64_MAX && nt > now + 500) d = std::min<uint64_t>(nt - now, 50000);
		sim::sleep_us(d);
	}
	return bus.quiescent();
}

void Engine::flush_and_quiesce(bool flush) {
	for (int round = 0; round < 6; round++) {
		if (flush) { sim::ApiScope api("bidib_flush"); bidib_flush(); }
		if (!wait_quiescent(20000)) violate("HANG", "quiesce", "uplink not drained within 20 simulated s: " + sim::describe_tasks());
		// a flush may have produced answers; loop until a flush produces nothing new
		size_t w = bus.wire.size();
		if (flush) { sim::ApiScope api("bidib_flush"); bidib_flush(); }
		if (bus.wire.size() == w && bus.quiescent()) return;
	}
}

struct Retained { getters::Ret r; J canon0; std::string call; int session = 0; };

void Engine::recheck_retained(const char *when) {
	for (Retained *rt : retained) {
		if (rt->r.freed) continue;
		J now = getters::canon(rt->r, true);
		if (now.dump() != rt->canon0.dump())
			violate("RESULT_NOT_INDEPENDENT", rt->call, std::string("the result of ") + rt->call + " changed " + when + ": it was " + rt->canon0.dump().substr(0, 300) + " and now reads " + now.dump().substr(0, 300));
	}
}
void Engine::release_retained() {
	for (Retained *rt : retained) {
		if (!rt->r.freed) { sim::ApiScope api("bidib_free_*_query"); getters::release(rt->r); }
		delete rt;
	}
	retained.clear();
}

static std::vector<std::string> j_strs(const J &a) { std::vector<std::string> v; for (size_t i = 0; i < a.size(); i++) v.push_back(a[i].is_null() ? std::string("\x01NULL") : a[i].str()); return v; }
static const char *cs(const std::vector<std::string> &v, size_t i) { return (i < v.size() && v[i] != "\x01NULL") ? v[i].c_str() : nullptr; }

void Engine::exec_op(const J &op, int task, int idx) {
	const std::string &k = op.gets("op");
	OpRec rec;
	rec.session = cur_session; rec.phase = cur_phase; rec.task = task; rec.idx = idx; rec.op = &op;
	rec.wire_before = bus.wire.size();
	apis++;
	if (k == "sleep") { sim::sleep_us((uint64_t) op.geti("us", op.geti("ms", 1) * 1000)); return; }
	if (k == "repeat") { const J &body = op["body"]; int64_t every = op.geti("sleep_every", 0); for (int64_t i = 0, n = op.geti("n", 1); i < n; i++) { exec_op(body, task, idx); if (every > 0 && i % every == every - 1) sim::sleep_us((uint64_t) op.geti("sleep_us", 5000)); } return; }   // long histories without long plans
	if (k == "quiesce") { flush_and_quiesce(op.getb("flush", true)); return; }
	if (k == "drain") {
		// read a queue until it is empty (bounded)
		J rd = J::obj(); rd.set("op", op.gets("q", "read"));
		drain_ops.push_back(rd);
		const J &ro = drain_ops.back();
		for (int i = 0; i < 400; i++) { size_t n = oplog.size(); exec_op(ro, task, idx); if (oplog.size() == n || oplog.back().ret == 0) break; }
		return;
	}
	if (k == "heal") {
		// faults stop; every stall is cleared; then, until the wire is stable for two rounds: let 2.2 s pass (expiry) and have
		// every node send a spontaneous message (the only moments the library re-evaluates a node)
		bus.answer_faults.clear(); bus.drop_answer_types.clear();
		std::vector<size_t> order;
		for (size_t i = 0; i < bus.nodes.size(); i++) if (bus.nodes[i].present) order.push_back(i);
		if (op.getb("reverse")) std::reverse(order.begin(), order.end());
		for (size_t i : order) bus.emit((int) i, MSG_STALL, {0}, {}, 0, 11);
		flush_and_quiesce(true);
		int stable = 0;
		for (int round = 0; round < 60 && stable < 2; round++) {
			size_t w = bus.wire.size();
			sim::sleep_us(2200000);
			for (size_t i : order) bus.emit((int) i, MSG_SYS_PONG, {(uint8_t) round}, {}, 0, 12);
			flush_and_quiesce(true);
			stable = (bus.wire.size() == w) ? stable + 1 : 0;
		}
		return;
	}
	if (k == "loopback") {
		// feed the library's own downlink bytes (since the last loopback) back into its receiver
		std::vector<uint8_t> b(bus.wire_raw.begin() + (long) loop_pos, bus.wire_raw.end());
		loop_pos = bus.wire_raw.size();
		if (!b.empty()) bus.emit_raw(b, 0, (uint64_t) op.geti("gap_us", 0), op.geti("split_at", -1), (uint64_t) op.geti("split_gap_us", 0), 77);
		return;
	}
	if (k == "emit") {
		const J &e = op;
		std::vector<bus::Fault> fs;
		for (size_t i = 0; i < e["faults"].size(); i++) fs.push_back(bus::fault_from(e["faults"][i]));
		if (e.has("inj")) bus.fired["stream:" + e.gets("inj")]++;
		if (e.has("raw")) bus.emit_raw(unhex(e.gets("raw")), (uint64_t) e.geti("delay_us", 0), (uint64_t) e.geti("gap_us", 0), e.geti("split_at", -1), (uint64_t) e.geti("split_gap_us", 0), (int) e.geti("tag", 0));
		else { int n = bus.find(j_bytes(e["node"])); if (n >= 0 || e.getb("force")) bus.emit(n, (uint8_t) e.geti("type"), j_bytes(e["data"]), fs, (uint64_t) e.geti("delay_us", 0), (int) e.geti("tag", 0)); }
		return;
	}
	rec.inv_time = sim::now_us();
	if (k == "ll") {
		const cat::LL *f = cat::find(op.gets("fn"));
		if (!f) violate("INFRA", "plan", "unknown ll fn " + op.gets("fn"));
		std::vector<uint8_t> a = j_bytes(op["a"]);
		t_bidib_node_address n = j_node(op["node"]);
		sim::ApiScope api(f->name);
		rec.inv_step = sim::self()->api_invoke_step;
		size_t si = starts.size();
		{ sim::HarnessScope hs; starts.push_back(OpStart{task, &op, rec.inv_step, sim::time_s(), sim::now_us()}); }
		f->call(n, a);
		starts[si].returned = true; starts[si].ret_step = sim::step();
	} else if (k == "flush") {
		sim::ApiScope api("bidib_flush");
		rec.inv_step = sim::self()->api_invoke_step;
		bidib_flush();
	} else if (k == "read" || k == "read_err" || k == "read_intern") {
		uint8_t *m;
		{
			sim::ApiScope api(k == "read" ? "bidib_read_message" : k == "read_err" ? "bidib_read_error_message" : "bidib_read_intern_message");
			rec.inv_step = sim::self()->api_invoke_step;
			m = k == "read" ? bidib_read_message() : k == "read_err" ? bidib_read_error_message() : bidib_read_intern_message();
		}
		if (m) { rec.has_bytes = true; rec.bytes.assign(m, m + m[0] + 1); free(m); }
		rec.ret = m ? 1 : 0;
	} else if (k == "hl") {
		std::vector<std::string> s = j_strs(op["s"]);
		const J &iv = op["i"];
		const std::string &fn = op.gets("fn");
		std::string nm = "bidib_" + fn;
		sim::ApiScope api(nm.c_str());
		rec.inv_step = sim::self()->api_invoke_step;
		if (fn == "switch_point") rec.ret = bidib_switch_point(cs(s, 0), cs(s, 1));
		else if (fn == "set_signal") rec.ret = bidib_set_signal(cs(s, 0), cs(s, 1));
		else if (fn == "set_peripheral") rec.ret = bidib_set_peripheral(cs(s, 0), cs(s, 1));
		else if (fn == "set_train_speed") rec.ret = bidib_set_train_speed(cs(s, 0), (int) iv[0].num(), cs(s, 1));
		else if (fn == "set_calibrated_train_speed") rec.ret = bidib_set_calibrated_train_speed(cs(s, 0), (int) iv[0].num(), cs(s, 1));
		else if (fn == "emergency_stop_train") rec.ret = bidib_emergency_stop_train(cs(s, 0), cs(s, 1));
		else if (fn == "set_train_peripheral") rec.ret = bidib_set_train_peripheral(cs(s, 0), cs(s, 1), (uint8_t) iv[0].num(), cs(s, 2));
		else if (fn == "set_booster_power_state") rec.ret = bidib_set_booster_power_state(cs(s, 0), iv[0].num() != 0);
		else if (fn == "set_track_output_state") rec.ret = bidib_set_track_output_state(cs(s, 0), (t_bidib_cs_state) iv[0].num());
		else if (fn == "set_track_output_state_all") { bidib_set_track_output_state_all((t_bidib_cs_state) iv[0].num()); rec.ret = 0; }
		else if (fn == "request_reverser_state") rec.ret = bidib_request_reverser_state(cs(s, 0), cs(s, 1));
		else if (fn == "ping") rec.ret = bidib_ping(cs(s, 0), (uint8_t) iv[0].num());
		else if (fn == "identify") rec.ret = bidib_identify(cs(s, 0), (uint8_t) iv[0].num());
		else if (fn == "get_protocol_version") rec.ret = bidib_get_protocol_version(cs(s, 0));
		else if (fn == "get_software_version") rec.ret = bidib_get_software_version(cs(s, 0));
		else violate("INFRA", "plan", "unknown hl fn " + fn);
	} else if (k == "get") {
		std::vector<std::string> s = j_strs(op["s"]);
		std::string nm = "bidib_get_" + op.gets("fn");
		sim::ApiScope api(nm.c_str());
		rec.inv_step = sim::self()->api_invoke_step;
		rec.result = getters::call(op.gets("fn"), s, op["i"]);
	} else if (k == "getr") {
		// query result that is retained: scanned for uninitialised fields now, re-read and freed later
		std::vector<std::string> s = j_strs(op["s"]);
		std::string nm = "bidib_get_" + op.gets("fn");
		Retained *rt;
		{ sim::HarnessScope hs; rt = new Retained(); rt->call = nm + op["s"].dump() + op["i"].dump(); }
		bool ok;
		{ sim::ApiScope api(nm.c_str()); rec.inv_step = sim::self()->api_invoke_step; ok = getters::acquire(rt->r, op.gets("fn"), s, op["i"]); }
		if (!ok) violate("INFRA", "plan", "unknown getter " + op.gets("fn"));
		std::string bad = getters::scan(rt->r);
		if (!bad.empty()) violate("UNINITIALISED_FIELD", nm, rt->call + ": field " + bad);
		rt->canon0 = getters::canon(rt->r, true);
		rt->session = cur_session;
		rec.result = rt->canon0;
		retained.push_back(rt);
	} else if (k == "reset") {
		sim::ApiScope api("bidib_send_sys_reset");
		rec.inv_step = sim::self()->api_invoke_step;
		bidib_send_sys_reset(0);
	} else {
		violate("INFRA", "plan", "unknown op " + k);
	}
	rec.ret_step = sim::step();
	rec.ret_time = sim::now_us();
	rec.wire_after = bus.wire.size();
	sim::hash_u64((uint64_t) rec.ret ^ (rec.has_bytes ? fnv1a(FNV_INIT, rec.bytes.data(), rec.bytes.size()) : 0));
	if (!rec.result.is_null()) { std::string d = rec.result.dump(); sim::hash_mix(d.data(), d.size()); }
	oplog.push_back(rec);
	if (prop) prop->after_op(*this, oplog.back());
}

// a node logs out of / into the bus: the interface above it bumps its table version and reports MSG_NODE_LOST / MSG_NODE_NEW
void Engine::topo_event(const J &e) {
		std::string k = e.gets("topo");
		int n = -1;
		std::vector<uint8_t> a = j_bytes(e["node"]);
		for (size_t q = 0; q < bus.nodes.size(); q++) if (bus.nodes[q].addr == a && (k == "lost" ? bus.nodes[q].present : !bus.nodes[q].present)) n = (int) q;
		if (n < 0) return;
		bus::Node &nd = bus.nodes[(size_t) n];
		if (nd.parent < 0) return;
		if (!bus.subtree_present(nd.parent) && !(k == "new" && e.has("as"))) return;
		if (k == "new" && e.has("as")) {
			// re-login at another local address below the same or another interface
			std::vector<uint8_t> na = j_bytes(e["as"]);
			std::vector<uint8_t> pa2(na.begin(), na.end() - 1);
			int np = bus.find(pa2);
			if (np < 0 || bus.find(na) >= 0 || !bus.subtree_present(np)) return;
			auto &oc = bus.nodes[(size_t) nd.parent].children; oc.erase(std::remove(oc.begin(), oc.end(), n), oc.end());
			nd.addr = na; nd.parent = np; bus.nodes[(size_t) np].children.push_back(n);
		}
		nd.present = (k == "new");
		if (k == "new") nd.tx_seq = 1;
		bus::Node &pa = bus.nodes[(size_t) nd.parent];
		if (!bus.subtree_present(nd.parent)) return;
		pa.tab_version = (uint8_t) (pa.tab_version == 255 ? 1 : pa.tab_version + 1);
		if (pa.enum_active) pa.enum_dirty = true;
		std::vector<uint8_t> d{pa.tab_version, nd.addr.back()};
		d.insert(d.end(), nd.uid, nd.uid + 7);
		std::vector<bus::Fault> fs;
		for (size_t q = 0; q < e["faults"].size(); q++) fs.push_back(bus::fault_from(e["faults"][q]));
		bus.emit(nd.parent, k == "new" ? MSG_NODE_NEW : MSG_NODE_LOST, d, fs, 0, (int) e.geti("tag", 0));
		return;
}

void Engine::run_bus_events(const J &ev) {
	// events are sorted by at_us by the generator; executed by a dedicated task
	uint64_t t0 = sim::now_us();
	for (size_t i = 0; i < ev.size(); i++) {
		const J &e = ev[i];
		uint64_t at = t0 + (uint64_t) e.geti("at_us", 0);
		if (at > sim::now_us()) sim::sleep_us(at - sim::now_us());
		if (e.has("topo")) { topo_event(e); continue; }
		std::vector<bus::Fault> fs;
		for (size_t q = 0; q < e["faults"].size(); q++) fs.push_back(bus::fault_from(e["faults"][q]));
		if (e.has("inj")) bus.fired["stream:" + e.gets("inj")]++;
		if (e.has("raw")) bus.emit_raw(unhex(e.gets("raw")), 0, (uint64_t) e.geti("gap_us", 0), e.geti("split_at", -1), (uint64_t) e.geti("split_gap_us", 0), (int) e.geti("tag", 0));
		else if (e.has("msgs")) {
			std::vector<ref::Msg> ms;
			for (size_t q = 0; q < e["msgs"].size(); q++) { ref::Msg m; m.type = (uint8_t) e["msgs"][q].geti("type"); m.data = j_bytes(e["msgs"][q]["data"]); if (e["msgs"][q].has("seq0")) m.seq = 0xEE; ms.push_back(m); }
			int n = bus.find(j_bytes(e["node"]));
			if (n >= 0) bus.emit_msgs(n, ms, fs, 0, (int) e.geti("tag", 0));
		} else {
			int n = bus.find(j_bytes(e["node"]));
			if (n >= 0) bus.emit(n, (uint8_t) e.geti("type"), j_bytes(e["data"]), fs, 0, (int) e.geti("tag", 0));
		}
	}
}

void Engine::run_phase(const J &ph) {
	const J &pre = ph["pre"];
	for (size_t i = 0; i < pre.size(); i++) exec_op(pre[i], 0, (int) i);
	std::vector<int> tids;
	const J &ev = ph["bus"];
	if (ev.size() > 0) tids.push_back(sim::spawn([this, &ev]() { run_bus_events(ev); }, "busdrv"));
	const J &ts = ph["tasks"];
	phase_tasks.clear();
	for (size_t t = 0; t < ts.size(); t++) {
		const J &ops = ts[t];
		int tn = (int) t + 1;
		int id = sim::spawn([this, &ops, tn]() { for (size_t i = 0; i < ops.size(); i++) exec_op(ops[i], tn, (int) i); }, "app" + std::to_string(tn));
		tids.push_back(id);
		phase_tasks.push_back(id);
	}
	for (int id : tids) sim::join(id);
	const J &post = ph["post"];
	bool q = false;
	for (size_t i = 0; i < post.size(); i++) {
		const std::string &a = post[i].str();
		if (a == "flush") { sim::ApiScope api("bidib_flush"); bidib_flush(); }
		else if (a == "quiesce") { flush_and_quiesce(true); q = true; }
		else if (a == "quiesce_noflush") { flush_and_quiesce(false); q = true; }
		else if (a.compare(0, 6, "sleep:") == 0) sim::sleep_us((uint64_t) atoll(a.c_str() + 6) * 1000);
	}
	if (q && prop) prop->at_quiescence(*this, cur_session, cur_phase);
}

static void register_lock_names() {
	static bool done = false;
	if (done) return;
	done = true;
	sim::name_lock(&bidib_trains_rwlock, "bidib_trains_rwlock", true);
	sim::name_lock(&bidib_boards_rwlock, "bidib_boards_rwlock", true);
	sim::name_lock(&trackstate_accessories_mutex, "trackstate_accessories_mutex", false);
	sim::name_lock(&trackstate_peripherals_mutex, "trackstate_peripherals_mutex", false);
	sim::name_lock(&trackstate_segments_mutex, "trackstate_segments_mutex", false);
	sim::name_lock(&trackstate_reversers_mutex, "trackstate_reversers_mutex", false);
	sim::name_lock(&trackstate_trains_mutex, "trackstate_trains_mutex", false);
	sim::name_lock(&trackstate_boosters_mutex, "trackstate_boosters_mutex", false);
	sim::name_lock(&trackstate_track_outputs_mutex, "trackstate_track_outputs_mutex", false);
	sim::name_lock(&bidib_node_state_table_mutex, "bidib_node_state_table_mutex", false);
	sim::name_lock(&bidib_send_buffer_mutex, "bidib_send_buffer_mutex", false);
	sim::name_lock(&bidib_uplink_queue_mutex, "bidib_uplink_queue_mutex", false);
	sim::name_lock(&bidib_uplink_error_queue_mutex, "bidib_uplink_error_queue_mutex", false);
	sim::name_lock(&bidib_uplink_intern_queue_mutex, "bidib_uplink_intern_queue_mutex", false);
	sim::name_lock(&bidib_action_id_mutex, "bidib_action_id_mutex", false);
}

void Engine::run() {
	register_lock_names();
	g_engine = this;
	sim::SchedParams sp = parse_sched(plan);
	sim::lib_state_snapshot();
	sim::lib_state_restore();
	sim::run_begin(sp);
	setup_bus();
	if (prop) prop->attach(*this);
	const J &ss = plan["sessions"];
	for (size_t s = 0; s < ss.size(); s++) {
		const J &se = ss[s];
		cur_session = (int) s;
		cur_phase = -1;
		sim::set_session((int) s + 1);
		int r = -2;
		if (se.getb("fresh", false)) sim::lib_state_restore();   // reference session: library statics as in a fresh process
		session_wire_begin.push_back(bus.wire.size());
		if (!se.getb("no_start", false)) {
			// bus events that happen while the start-up dialogue is running (node table changes, spontaneous traffic)
			int sb = -1;
			const J &sev = se["start_bus"];
			if (sev.size() > 0) sb = sim::spawn([this, &sev]() { run_bus_events(sev); }, "startbus");
			r = do_start(se["start"]);
			if (sb >= 0) sim::join(sb);
			if (se["start"].has("expect") && r != (int) se["start"].geti("expect"))
				violate("START_RETURN", se["start"].gets("mode"), "start returned " + std::to_string(r) + ", the plan expects " + std::to_string(se["start"].geti("expect")) + " (valid generated configuration, responsive interface)");
			if (prop) prop->on_session_start(*this, (int) s, r);
		}
		if (r == 0 || se.getb("phases_anyway", false)) {
			const J &phs = se["phases"];
			for (size_t p = 0; p < phs.size(); p++) { cur_phase = (int) p; run_phase(phs[p]); }
		}
		if (r == 0 && se.getb("start_again", false)) {
			// start while running must do nothing
			// (variants: 1 valid arguments, 2 no configuration directory, 3 / 4 no read / write callback, 5 serial start without a device name)
			size_t w = bus.wire.size(); int tc = sim::task_count(); size_t te = sim::thread_events().size();
			int r2, variant = (int) se.geti("start_again_variant", 1);
			const char *dir = cfgdir.empty() ? nullptr : cfgdir.c_str();
			unsigned fl = (unsigned) se["start"].geti("flush_ms", 0);
			if (variant == 5) { sim::ApiScope api("bidib_start_serial"); r2 = bidib_start_serial(nullptr, dir, fl); }
			else { sim::ApiScope api("bidib_start_pointer"); r2 = bidib_start_pointer(variant == 3 ? nullptr : cb_read, variant == 4 ? nullptr : cb_write, variant == 2 ? nullptr : dir, fl); }
			{ sim::ApiScope api("bidib_flush"); bidib_flush(); }
			if (bus.wire.size() != w || sim::task_count() != tc || sim::thread_events().size() != te)
				violate("START_WHILE_RUNNING_ACTED", "bidib_start", "a second start (argument variant " + std::to_string(variant) + ") while a session is running sent messages, created or joined threads (returned " + std::to_string(r2) + ")");
		}
		if (se.getb("stop", true)) {
			if (prop) prop->before_stop(*this, (int) s);
			// bus traffic that keeps arriving while the library stops
			int stb = -1;
			const J &stev = se["stop_bus"];
			if (stev.size() > 0) stb = sim::spawn([this, &stev]() { run_bus_events(stev); }, "stopbus");
			do_stop();
			if (stb >= 0) { sim::join(stb); bus.pending.clear(); }      // (what the stopped library did not read any more does not wait on the line for the next session)
			if (prop) prop->on_session_stop(*this, (int) s);
			if (se.getb("stop_again", false)) {
				size_t w = bus.wire.size(); size_t te = sim::thread_events().size(); uint64_t t0 = sim::now_us();
				do_stop();
				live_after_stop.pop_back();
				if (bus.wire.size() != w || sim::thread_events().size() != te || sim::now_us() != t0)
					violate("STOP_WHILE_STOPPED_ACTED", "bidib_stop", "bidib_stop on a stopped library sent messages, joined threads or slept");
			}
		}
		session_wire_end.push_back(bus.wire.size());
	}
	if (prop) prop->at_end(*this);
	sim::run_end();
}

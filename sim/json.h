// Minimal JSON value: parse + dump. Objects keep insertion order (deterministic output).
#pragma once
#include <stdint.h>
#include <string>
#include <vector>
#include <utility>
#include <stdexcept>
#include <cstdio>
#include <cstdlib>
#include <cstring>

struct J {
	enum T { NUL, BOOL, INT, DBL, STR, ARR, OBJ } t = NUL;
	bool b = false;
	int64_t i = 0;
	double d = 0;
	std::string s;
	std::vector<J> a;
	std::vector<std::pair<std::string, J>> o;

	J() {}
	J(bool v) : t(BOOL), b(v) {}
	J(int v) : t(INT), i(v) {}
	J(unsigned v) : t(INT), i(v) {}
	J(long v) : t(INT), i(v) {}
	J(unsigned long v) : t(INT), i((int64_t) v) {}
	J(long long v) : t(INT), i(v) {}
	J(unsigned long long v) : t(INT), i((int64_t) v) {}
	J(double v) : t(DBL), d(v) {}
	J(const char *v) : t(STR), s(v) {}
	J(const std::string &v) : t(STR), s(v) {}
	static J arr() { J j; j.t = ARR; return j; }
	static J obj() { J j; j.t = OBJ; return j; }

	bool is_null() const { return t == NUL; }
	bool is_obj() const { return t == OBJ; }
	bool is_arr() const { return t == ARR; }
	bool is_str() const { return t == STR; }
	size_t size() const { return t == ARR ? a.size() : t == OBJ ? o.size() : 0; }
	J &push(const J &v) { if (t != ARR) { t = ARR; } a.push_back(v); return a.back(); }
	J &set(const std::string &k, const J &v) {
		if (t != OBJ) t = OBJ;
		for (auto &kv : o) if (kv.first == k) { kv.second = v; return kv.second; }
		o.emplace_back(k, v); return o.back().second;
	}
	const J *find(const std::string &k) const {
		if (t != OBJ) return nullptr;
		for (auto &kv : o) if (kv.first == k) return &kv.second;
		return nullptr;
	}
	bool has(const std::string &k) const { return find(k) != nullptr; }
	const J &operator[](const std::string &k) const { static J nul; const J *p = find(k); return p ? *p : nul; }
	const J &operator[](size_t k) const { static J nul; return (t == ARR && k < a.size()) ? a[k] : nul; }
	int64_t num(int64_t def = 0) const { return t == INT ? i : t == DBL ? (int64_t) d : t == BOOL ? b : def; }
	double dbl(double def = 0) const { return t == DBL ? d : t == INT ? (double) i : def; }
	bool boolean(bool def = false) const { return t == BOOL ? b : t == INT ? i != 0 : def; }
	const std::string &str() const { static std::string e; return t == STR ? s : e; }
	int64_t geti(const std::string &k, int64_t def = 0) const { const J *p = find(k); return p ? p->num(def) : def; }
	std::string gets(const std::string &k, const std::string &def = "") const { const J *p = find(k); return (p && p->t == STR) ? p->s : def; }
	bool getb(const std::string &k, bool def = false) const { const J *p = find(k); return p ? p->boolean(def) : def; }

	static void esc(std::string &out, const std::string &s) {
		out += '"';
		for (unsigned char c : s) {
			switch (c) {
				case '"': out += "\\\""; break;
				case '\\': out += "\\\\"; break;
				case '\n': out += "\\n"; break;
				case '\r': out += "\\r"; break;
				case '\t': out += "\\t"; break;
				default:
					if (c < 0x20 || c >= 0x7f) { char b[8]; snprintf(b, sizeof b, "\\u%04x", c); out += b; }
					else out += (char) c;
			}
		}
		out += '"';
	}
	void dump(std::string &out) const {
		switch (t) {
			case NUL: out += "null"; break;
			case BOOL: out += b ? "true" : "false"; break;
			case INT: out += std::to_string(i); break;
			case DBL: { char buf[40]; snprintf(buf, sizeof buf, "%.6g", d); out += buf; break; }
			case STR: esc(out, s); break;
			case ARR: {
				out += '[';
				for (size_t k = 0; k < a.size(); k++) { if (k) out += ','; a[k].dump(out); }
				out += ']'; break;
			}
			case OBJ: {
				out += '{';
				for (size_t k = 0; k < o.size(); k++) { if (k) out += ','; esc(out, o[k].first); out += ':'; o[k].second.dump(out); }
				out += '}'; break;
			}
		}
	}
	std::string dump() const { std::string s; dump(s); return s; }

	// ---- parser ----
	struct P {
		const char *p, *e;
		void ws() { while (p < e && (*p == ' ' || *p == '\n' || *p == '\t' || *p == '\r')) p++; }
		[[noreturn]] void bad(const char *m) { throw std::runtime_error(std::string("json: ") + m); }
		J val() {
			ws();
			if (p >= e) bad("eof");
			char c = *p;
			if (c == '{') {
				p++; J j = J::obj(); ws();
				if (p < e && *p == '}') { p++; return j; }
				for (;;) {
					ws(); if (p >= e || *p != '"') bad("key");
					std::string k = str(); ws();
					if (p >= e || *p != ':') bad("colon");
					p++; J v = val(); j.o.emplace_back(k, v); ws();
					if (p < e && *p == ',') { p++; continue; }
					if (p < e && *p == '}') { p++; return j; }
					bad("obj");
				}
			}
			if (c == '[') {
				p++; J j = J::arr(); ws();
				if (p < e && *p == ']') { p++; return j; }
				for (;;) {
					j.a.push_back(val()); ws();
					if (p < e && *p == ',') { p++; continue; }
					if (p < e && *p == ']') { p++; return j; }
					bad("arr");
				}
			}
			if (c == '"') return J(str());
			if (!strncmp(p, "true", 4)) { p += 4; return J(true); }
			if (!strncmp(p, "false", 5)) { p += 5; return J(false); }
			if (!strncmp(p, "null", 4)) { p += 4; return J(); }
			const char *q = p; bool isd = false;
			if (*q == '-') q++;
			while (q < e && ((*q >= '0' && *q <= '9') || *q == '.' || *q == 'e' || *q == 'E' || *q == '+' || *q == '-')) {
				if (*q == '.' || *q == 'e' || *q == 'E') isd = true;
				q++;
			}
			if (q == p) bad("value");
			std::string n(p, q); p = q;
			if (isd) return J(strtod(n.c_str(), nullptr));
			return J((long long) strtoll(n.c_str(), nullptr, 10));
		}
		std::string str() {
			std::string s; p++;
			while (p < e && *p != '"') {
				if (*p == '\\') {
					p++; if (p >= e) bad("esc");
					switch (*p) {
						case 'n': s += '\n'; break; case 't': s += '\t'; break; case 'r': s += '\r'; break;
						case 'b': s += '\b'; break; case 'f': s += '\f'; break;
						case 'u': {
							if (p + 4 >= e) bad("u");
							unsigned v = (unsigned) strtoul(std::string(p + 1, p + 5).c_str(), nullptr, 16);
							s += (char) (v & 0xff); p += 4; break;
						}
						default: s += *p;
					}
					p++;
				} else s += *p++;
			}
			if (p >= e) bad("str");
			p++; return s;
		}
	};
	static J parse(const std::string &txt) { P ps{txt.data(), txt.data() + txt.size()}; return ps.val(); }
};

static inline std::string hex_of(const uint8_t *p, size_t n) {
	static const char *d = "0123456789abcdef"; std::string s; s.reserve(n * 2);
	for (size_t i = 0; i < n; i++) { s += d[p[i] >> 4]; s += d[p[i] & 15]; }
	return s;
}
static inline std::string hex_of(const std::vector<uint8_t> &v) { return hex_of(v.data(), v.size()); }
static inline std::vector<uint8_t> unhex(const std::string &s) {
	std::vector<uint8_t> v; auto h = [](char c) { return c <= '9' ? c - '0' : (c | 32) - 'a' + 10; };
	for (size_t i = 0; i + 1 < s.size(); i += 2) v.push_back((uint8_t) (h(s[i]) << 4 | h(s[i + 1])));
	return v;
}

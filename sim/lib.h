// The library's public API (C) plus the few internal entry points the repo's own unit tests use.
#pragma once
#include <pthread.h>
#include <stdbool.h>
#include <stdint.h>
extern "C" {
#define namespace namespace_
#include "include/bidib.h"
#undef namespace
void bidib_set_lowlevel_debug_mode(bool uplink_debug_mode_on);
uint8_t *bidib_read_intern_message(void);
extern pthread_rwlock_t bidib_trains_rwlock, bidib_boards_rwlock;
extern pthread_mutex_t trackstate_accessories_mutex, trackstate_peripherals_mutex, trackstate_segments_mutex,
		trackstate_reversers_mutex, trackstate_trains_mutex, trackstate_boosters_mutex, trackstate_track_outputs_mutex,
		bidib_node_state_table_mutex, bidib_send_buffer_mutex, bidib_uplink_queue_mutex, bidib_uplink_error_queue_mutex,
		bidib_uplink_intern_queue_mutex, bidib_action_id_mutex;
extern volatile bool bidib_running, bidib_discard_rx, bidib_seq_num_enabled, bidib_lowlevel_debug_mode;
}

// Deterministic scheduler / clock / lock model for libbidib simulation.
// Real pthreads, exactly one of which runs at a time (baton); the PRNG (or a recorded
// decision list) picks the next task at every yield point.
#pragma once
#include <stdint.h>
#include <pthread.h>
#include <functional>
#include <string>
#include <vector>
#include <map>
#include "prng.h"

namespace sim {

enum YieldKind : uint8_t { Y_LOCK = 0, Y_UNLOCK, Y_SLEEP, Y_CREATE, Y_JOIN, Y_EXIT, Y_API, Y_CB, Y_FN, Y_NKINDS };
enum TState : uint8_t { T_UNUSED = 0, T_RUNNABLE, T_BLOCKED, T_SLEEPING, T_JOINING, T_DONE };
enum Policy : int { P_RANDOM = 0, P_PCT = 1, P_STICKY = 2, P_STARVE = 3, P_REPLAY = 4, P_FIFO = 5 };

struct SchedParams {
	int policy = P_RANDOM;
	uint64_t seed = 1;
	int pct_d = 2;            // number of priority change points
	int pct_k = 3000;         // estimated steps per run for placing change points
	int sticky_permille = 900;
	int fn_yield_permille = 0;   // chance to treat a library function entry as a preemption point
	int starve_task = -1;        // task id that is not scheduled during the starve window
	uint64_t starve_from_us = 0, starve_for_us = 0;
	uint32_t jitter_us = 0;      // usleep(d) sleeps d + U[0,jitter]
	uint32_t preempt_permille = 0;   // chance that a task is descheduled at a lock / unlock point ...
	uint32_t preempt_max_us = 0;     // ... for up to this long (simulated time passes: the "slow thread" fault)
	bool libc_yield = false;      // malloc/free/strdup/strcmp/memcpy calls of the library are preemption points too
	bool glib_yield = false;      // GLib container calls are preemption points too (probability fn_yield_permille)
	uint32_t grid_us = 1;        // >1: every wake-up and every frame start is rounded up to a multiple of this (see grid_round)
	uint64_t epoch0_us = 1700000000ULL * 1000000ULL;
	uint64_t max_steps = 3000000;
	uint64_t max_time_us = 600ULL * 1000000ULL;
	bool have_decisions = false;                       // replay: use decisions, ignore policy
	std::vector<std::pair<uint64_t, int>> decisions;   // sparse (step, task): deviations from default
};

struct Held { int lock; char mode; void *site; };   // mode: 'm' mutex, 'r' read, 'w' write

struct Task {
	int id = -1;
	TState st = T_UNUSED;
	volatile int go = 0;
	pthread_t th = 0;
	bool has_thread = false;
	uint64_t wake = 0;
	void *wait_lock = nullptr; char wait_mode = 0;
	int join_target = -1;
	std::function<void()> fn;
	void *(*cfn)(void *) = nullptr; void *carg = nullptr; void *cret = nullptr;
	bool is_lib = false;     // created by the library through pthread_create
	bool in_lib = false;     // currently executing library code (allocation attribution)
	int api_depth = 0;
	int sim_depth = 0;       // >0 while inside simulator bookkeeping (allocations not attributed)
	std::string name;
	std::vector<Held> held;
	int prio = 0;
	int joined = 0;          // times joined
	int session = 0;
	const char *cur_api = nullptr;
	uint64_t api_invoke_step = 0;
};

struct LockInfo {
	int id = -1;
	std::string name;
	bool rw = false;
	int owner = -1;                     // mutex owner / rwlock writer (task id)
	std::map<int, int> readers;         // task id -> recursion count
	uint64_t acquisitions = 0, contended = 0;
	uint64_t cs_count = 0;              // number of critical sections so far in this run (linearisation index)
};

struct OrderEdge { int a; char am; int b; char bm; };
inline bool operator<(const OrderEdge &x, const OrderEdge &y) {
	if (x.a != y.a) return x.a < y.a; if (x.am != y.am) return x.am < y.am;
	if (x.b != y.b) return x.b < y.b; return x.bm < y.bm;
}
struct EdgeWitness { uint64_t count = 0; void *site_a = nullptr, *site_b = nullptr; int task = -1; };

struct RunStats {
	uint64_t steps = 0, switches = 0, yields[Y_NKINDS] = {0};
	uint64_t sim_time_us = 0;
	uint64_t lock_contended = 0;
	uint64_t max_tasks = 0;
	uint64_t overlap3 = 0;          // times >=3 tasks were simultaneously waiting-for/holding the same lock
	uint64_t starve_applied = 0;
	uint64_t preempt_injected = 0;
	uint64_t pct_changes = 0;
};

// ---- failure handling: handler must not return (dumps replay and _exit()s) ----
typedef void (*FailHandler)(const char *cls, const char *site, const char *detail);
void set_fail_handler(FailHandler h);
[[noreturn]] void fail(const char *cls, const std::string &site, const std::string &detail);

// ---- run lifecycle (called from the controlling OS thread; it becomes task 0 "driver") ----
void run_begin(const SchedParams &p);
void run_end();                       // all other tasks must be DONE and joined
bool active();                        // a run is in progress and the caller is a simulated task
Task *self();
int self_id();

// ---- tasks ----
int spawn(std::function<void()> fn, const std::string &name);   // app task (harness code)
void join(int task);
void sleep_us(uint64_t us);          // advance on the simulated clock
void yield(YieldKind k);
uint64_t now_us();
void maybe_preempt_at_call();
void preempt_enable(bool on);          // scheduling faults (starvation window, descheduling at lock points) allowed; the engine switches them off during bidib_start_*
uint64_t grid_round(uint64_t t_us);   // next instant of the run's time grid at or after t
int64_t time_s();          // value the wrapped time() returns now
uint64_t step();
uint64_t trace_hash();
void hash_mix(const void *p, size_t n);
void hash_u64(uint64_t v);
const RunStats &stats();
Rng &sched_rng();
int task_count();
Task *task(int id);
const std::vector<std::pair<uint64_t, int>> &recorded_decisions();
uint64_t recorded_decision_points();

// ---- locks ----
void name_lock(void *addr, const char *name, bool rw);
LockInfo *lock_info(void *addr);
int lock_id_of(void *addr);
const std::map<OrderEdge, EdgeWitness> &order_edges();     // accumulated over the whole process
const std::vector<std::string> &lock_names();               // id -> name
void clear_order_edges();
std::string describe_tasks();
const char *current_api();            // public API function the running task is in ("" if none) - safe to call from outside the simulation
std::string sym(void *addr);

// ---- lockset monitor for GLib containers (library calls into g_queue_* / g_hash_table_* / g_array_*)
void lockset_arm(bool on);            // arming clears what was learnt
uint64_t lockset_checks();
uint64_t lockset_shared_objects();
void lockset_reset_counters();

// ---- session / thread bookkeeping for lifecycle oracles ----
struct ThreadEvent { char kind; int task; int by; int session; bool stale; };   // 'c' create, 'j' join
const std::vector<ThreadEvent> &thread_events();
void set_session(int s);
int session();

// ---- hooks the harness can install ----
struct Hooks {
	void (*on_fn_enter)(void *fn, Task *t) = nullptr;     // contract monitor
	void (*on_lock)(LockInfo *l, char mode, Task *t, bool acquire) = nullptr;
	void (*on_syslog)(int prio, const char *msg) = nullptr;
};
Hooks &hooks();
extern bool g_verbose_log;     // print library syslog lines to stderr (replay diagnostics)
extern bool g_trace_sched;     // print every scheduling decision

// RAII: code running in the harness on a library thread (callbacks) is not "library code"
struct HarnessScope {
	Task *t; bool saved;
	HarnessScope();
	~HarnessScope();
};
// RAII: an API call into the library from harness code
struct ApiScope {
	Task *t; size_t held_before; bool saved; const char *name;
	explicit ApiScope(const char *api_name);
	~ApiScope();
};

// the library's static data is restored to its process-start content before every run
void lib_state_snapshot();
void lib_state_restore();

// library-attributed live heap bytes (ASan builds; 0 otherwise)
int64_t lib_live_bytes();
int64_t lib_live_blocks();
uint64_t lib_total_allocs();
void dump_live_since(uint64_t seq_marker);   // diagnostics (VERIF_LEAKDBG=1): live library allocations newer than the marker

// reach counters for library functions (address -> calls), process lifetime
const std::map<void *, uint64_t> &fn_reach();

// virtual files for the wrapped fopen
struct VFile { std::string content; int fault = 0; /*0 none,1 enoent,2 truncate,3 eio*/ size_t fault_at = 0; };
void vfs_clear();
void vfs_put(const std::string &path, const VFile &f);
uint64_t vfs_opens();
uint64_t vfs_open_fds();   // currently open virtual FILE* (leak check)
extern uint64_t g_vfs_fault_fired[4];

// fake serial device (wrapped open/read/write/close/tc*attr)
struct SerialDev {
	bool openable = true;
	uint8_t (*read_byte)(int *ok) = nullptr;
	void (*write_n)(uint8_t *, int32_t) = nullptr;
};
void serial_set(const SerialDev &d);
extern uint64_t g_serial_open_failed, g_serial_opens, g_serial_closes;

}  // namespace sim

#define SIM_FAKE_SERIAL_PATH "/simdev/ttyBIDIB"
#define SIM_FAKE_SERIAL_FD 10077
#define SIM_VFS_PREFIX "/simcfg"

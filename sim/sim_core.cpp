// Deterministic scheduler, simulated clock, lock model and libc/pthread wrappers.
// This TU is compiled without ThreadSanitizer in every variant.
#define _GNU_SOURCE 1
#include "sim_core.h"
#include <stdio.h>
#include <stdlib.h>
#include <string.h>
#include <stdarg.h>
#include <errno.h>
#include <unistd.h>
#include <time.h>
#include <dlfcn.h>
#include <elf.h>
#include <algorithm>
#include <termios.h>
#include <fcntl.h>
#include <algorithm>
#include <execinfo.h>
#include <set>

extern "C" void sim_baton_wait(volatile int *w);
extern "C" void sim_baton_post(volatile int *w);
// ThreadSanitizer must not see the harness's own memory accesses (they are serialised by the baton, which it cannot see):
// every stretch of harness / simulator code executed by a simulated task is bracketed by these.
extern "C" void AnnotateIgnoreWritesBegin(const char *f, int l) __attribute__((weak));
extern "C" void AnnotateIgnoreWritesEnd(const char *f, int l) __attribute__((weak));
extern "C" void AnnotateIgnoreReadsBegin(const char *f, int l) __attribute__((weak));
extern "C" void AnnotateIgnoreReadsEnd(const char *f, int l) __attribute__((weak));
static inline void tsan_harness_begin() { if (AnnotateIgnoreWritesBegin) { AnnotateIgnoreReadsBegin(__FILE__, __LINE__); AnnotateIgnoreWritesBegin(__FILE__, __LINE__); } }
static inline void tsan_harness_end() { if (AnnotateIgnoreWritesEnd) { AnnotateIgnoreWritesEnd(__FILE__, __LINE__); AnnotateIgnoreReadsEnd(__FILE__, __LINE__); } }
extern "C" int __sanitizer_install_malloc_and_free_hooks(void (*malloc_hook)(const volatile void *, size_t),
                                                           void (*free_hook)(const volatile void *)) __attribute__((weak));

namespace sim {

static const int MAX_TASKS = 1024;

struct Global {
	bool running = false;
	SchedParams p;
	Rng rng;
	Task tasks[MAX_TASKS];
	int ntasks = 0;
	Task *cur = nullptr;
	uint64_t now = 0;
	uint64_t step = 0;
	uint64_t hash = FNV_INIT;
	RunStats st;
	std::vector<std::pair<uint64_t, int>> rec;   // recorded sparse decisions
	size_t dec_pos = 0;
	std::vector<uint64_t> pct_points;
	int session = 0;
	std::vector<ThreadEvent> tev;
	uint64_t decision_points = 0;
};
static Global G;
static __thread Task *me = nullptr;

static std::map<void *, LockInfo> g_locks;        // per run (cleared in run_begin) but ids/names stable
static std::map<void *, std::pair<std::string, bool>> g_named;
static std::vector<std::string> g_lock_names;     // id -> name (process lifetime)
static std::map<std::string, int> g_lock_ids;
static std::map<OrderEdge, EdgeWitness> g_edges;
static std::map<void *, uint64_t> g_reach;
static Hooks g_hooks;
static FailHandler g_fail = nullptr;
bool g_verbose_log = false;
bool g_trace_sched = false;

// synthetic thread handles: never reused, so a stale handle is always recognisable
static uint64_t g_handle_seq = 0;
struct HandleInfo { int task; int run; int session; int joined; };
static std::map<uint64_t, HandleInfo> g_handles;
static int g_run_no = 0;
static const uint64_t HANDLE_BASE = 0x51D0000000ULL;

Hooks &hooks() { return g_hooks; }
void set_fail_handler(FailHandler h) { g_fail = h; }

// Static functions are not in the dynamic symbol table: fall back to the ELF .symtab of the executable (read once).
struct ElfSym { uintptr_t addr; size_t size; std::string name; };
static std::vector<ElfSym> g_elfsyms;
static bool g_elfsyms_loaded = false;
static void load_elfsyms(uintptr_t base) {
	g_elfsyms_loaded = true;
	FILE *f = fopen("/proc/self/exe", "rb");
	if (!f) return;
	std::vector<uint8_t> img;
	{ uint8_t buf[65536]; size_t n; while ((n = fread(buf, 1, sizeof buf, f)) > 0) img.insert(img.end(), buf, buf + n); }
	fclose(f);
	if (img.size() < sizeof(Elf64_Ehdr)) return;
	const Elf64_Ehdr *eh = (const Elf64_Ehdr *) img.data();
	if (memcmp(eh->e_ident, ELFMAG, SELFMAG) != 0 || eh->e_shoff == 0 || eh->e_shoff + (size_t) eh->e_shnum * sizeof(Elf64_Shdr) > img.size()) return;
	const Elf64_Shdr *sh = (const Elf64_Shdr *) (img.data() + eh->e_shoff);
	bool pie = eh->e_type == ET_DYN;
	for (int i = 0; i < eh->e_shnum; i++) {
		if (sh[i].sh_type != SHT_SYMTAB || sh[i].sh_link >= eh->e_shnum) continue;
		const Elf64_Shdr &st = sh[sh[i].sh_link];
		if (sh[i].sh_offset + sh[i].sh_size > img.size() || st.sh_offset + st.sh_size > img.size()) continue;
		const Elf64_Sym *sy = (const Elf64_Sym *) (img.data() + sh[i].sh_offset);
		size_t n = sh[i].sh_size / sizeof(Elf64_Sym);
		for (size_t k = 0; k < n; k++) {
			if (ELF64_ST_TYPE(sy[k].st_info) != STT_FUNC || sy[k].st_value == 0 || sy[k].st_name >= st.sh_size) continue;
			g_elfsyms.push_back(ElfSym{(uintptr_t) sy[k].st_value + (pie ? base : 0), (size_t) sy[k].st_size, (const char *) (img.data() + st.sh_offset + sy[k].st_name)});
		}
	}
	std::sort(g_elfsyms.begin(), g_elfsyms.end(), [](const ElfSym &a, const ElfSym &b) { return a.addr < b.addr; });
}

std::string sym(void *addr) {
	Dl_info di;
	char buf[256];
	if (addr && dladdr(addr, &di)) {
		if (di.dli_sname) {
			snprintf(buf, sizeof buf, "%s+0x%lx", di.dli_sname, (unsigned long) ((char *) addr - (char *) di.dli_saddr));
			return buf;
		}
		if (!g_elfsyms_loaded) { Dl_info me; if (dladdr((void *) &load_elfsyms, &me) && me.dli_fbase == di.dli_fbase) load_elfsyms((uintptr_t) di.dli_fbase); }
		if (!g_elfsyms.empty()) {
			uintptr_t a = (uintptr_t) addr;
			auto it = std::upper_bound(g_elfsyms.begin(), g_elfsyms.end(), a, [](uintptr_t v, const ElfSym &e) { return v < e.addr; });
			if (it != g_elfsyms.begin()) {
				--it;
				if (a >= it->addr && a < it->addr + (it->size ? it->size : 1)) { snprintf(buf, sizeof buf, "%s+0x%lx", it->name.c_str(), (unsigned long) (a - it->addr)); return buf; }
			}
		}
	}
	snprintf(buf, sizeof buf, "%p", addr);
	return buf;
}

static const char *st_name(TState s) {
	switch (s) { case T_UNUSED: return "unused"; case T_RUNNABLE: return "runnable"; case T_BLOCKED: return "blocked";
		case T_SLEEPING: return "sleeping"; case T_JOINING: return "joining"; case T_DONE: return "done"; }
	return "?";
}

std::string describe_tasks() {
	std::string s;
	char buf[512];
	for (int i = 0; i < G.ntasks; i++) {
		Task &t = G.tasks[i];
		snprintf(buf, sizeof buf, "task %d '%s' %s", t.id, t.name.c_str(), st_name(t.st));
		s += buf;
		if (t.st == T_BLOCKED) { LockInfo *l = lock_info(t.wait_lock); snprintf(buf, sizeof buf, " on %s(%c)", l ? l->name.c_str() : "?", t.wait_mode); s += buf; }
		if (t.st == T_SLEEPING) { snprintf(buf, sizeof buf, " until %llu", (unsigned long long) t.wake); s += buf; }
		if (t.st == T_JOINING) { snprintf(buf, sizeof buf, " join %d", t.join_target); s += buf; }
		if (t.cur_api) { s += " in "; s += t.cur_api; }
		if (!t.held.empty()) {
			s += " holds[";
			for (auto &h : t.held) { s += g_lock_names[h.lock]; s += '('; s += h.mode; s += ")@"; s += sym(h.site); s += ' '; }
			s += "]";
		}
		s += "; ";
	}
	return s;
}

[[noreturn]] void fail(const char *cls, const std::string &site, const std::string &detail) {
	if (g_fail) g_fail(cls, site.c_str(), detail.c_str());
	fprintf(stderr, "SIM FAIL (no handler) %s %s %s\n", cls, site.c_str(), detail.c_str());
	_exit(3);
}

bool active() { return G.running && me != nullptr; }
static void reschedule(YieldKind k);
// a possible preemption point at a call boundary (library function entry, GLib container call)
void maybe_preempt_at_call() {
	if (G.p.fn_yield_permille <= 0) return;
	if (G.p.have_decisions) {
		// replay: a preemption at a call boundary is only taken when the decision list says so
		while (G.dec_pos < G.p.decisions.size() && G.p.decisions[G.dec_pos].first <= G.step) G.dec_pos++;
		if (G.dec_pos < G.p.decisions.size() && G.p.decisions[G.dec_pos].first == G.step + 1) reschedule(Y_FN);
		else { G.step++; G.st.steps++; }   // keep step numbering identical to the recorded run
	} else if (G.rng.chance((uint32_t) G.p.fn_yield_permille)) {
		reschedule(Y_FN);
	} else {
		G.step++; G.st.steps++;
	}
}
const char *current_api() { Task *t = G.cur; return (t && t->cur_api) ? t->cur_api : "(no api call)"; }
Task *self() { return me; }
int self_id() { return me ? me->id : -1; }
uint64_t now_us() { return G.now; }
int64_t time_s() { return (int64_t) ((G.p.epoch0_us + G.now) / 1000000ULL); }
uint64_t step() { return G.step; }
uint64_t trace_hash() { return G.hash; }
void hash_mix(const void *p, size_t n) { G.hash = fnv1a(G.hash, p, n); }
void hash_u64(uint64_t v) { G.hash = fnv1a_u64(G.hash, v); }
const RunStats &stats() { G.st.sim_time_us = G.now; return G.st; }
Rng &sched_rng() { return G.rng; }
int task_count() { return G.ntasks; }
Task *task(int id) { return (id >= 0 && id < G.ntasks) ? &G.tasks[id] : nullptr; }
const std::vector<std::pair<uint64_t, int>> &recorded_decisions() { return G.rec; }
uint64_t recorded_decision_points() { return G.decision_points; }
const std::vector<ThreadEvent> &thread_events() { return G.tev; }
void set_session(int s) { G.session = s; }
int session() { return G.session; }
const std::map<void *, uint64_t> &fn_reach() { return g_reach; }

// ------------------------------------------------------------------ locks
static int lock_name_id(const std::string &n) {
	auto it = g_lock_ids.find(n);
	if (it != g_lock_ids.end()) return it->second;
	int id = (int) g_lock_names.size();
	g_lock_names.push_back(n);
	g_lock_ids[n] = id;
	return id;
}
void name_lock(void *addr, const char *name, bool rw) { g_named[addr] = {name, rw}; lock_name_id(name); }
const std::vector<std::string> &lock_names() { return g_lock_names; }
const std::map<OrderEdge, EdgeWitness> &order_edges() { return g_edges; }
void clear_order_edges() { g_edges.clear(); }

static LockInfo *get_lock(void *addr, bool rw) {
	auto it = g_locks.find(addr);
	if (it != g_locks.end()) return &it->second;
	LockInfo li;
	auto nm = g_named.find(addr);
	if (nm != g_named.end()) li.name = nm->second.first;
	else { char b[64]; snprintf(b, sizeof b, "%s#%zu", rw ? "rwlock" : "mutex", g_locks.size()); li.name = b; }
	li.rw = rw;
	li.id = lock_name_id(li.name);
	return &(g_locks[addr] = li);
}
LockInfo *lock_info(void *addr) { auto it = g_locks.find(addr); return it == g_locks.end() ? nullptr : &it->second; }
int lock_id_of(void *addr) { LockInfo *l = lock_info(addr); return l ? l->id : -1; }

static bool lock_available(LockInfo *l, char mode, Task *t) {
	(void) t;
	if (!l->rw) return l->owner < 0;
	if (mode == 'r') return l->owner < 0;                      // reader-preferring (glibc default)
	return l->owner < 0 && l->readers.empty();
}

// ------------------------------------------------------------------ scheduler
static bool g_preempt_on = true;       // scheduling faults (starvation, descheduling) allowed; off while bidib_start_* runs
void preempt_enable(bool on) { g_preempt_on = on; }

static bool starved_now(Task *t) {
	return g_preempt_on && G.p.policy == P_STARVE && t->id == G.p.starve_task && G.now >= G.p.starve_from_us &&
	       G.now < G.p.starve_from_us + G.p.starve_for_us;
}

static bool eligible_nostarve(Task *t) {
	switch (t->st) {
		case T_RUNNABLE: return true;
		case T_BLOCKED: { LockInfo *l = lock_info(t->wait_lock); return l && lock_available(l, t->wait_mode, t); }
		case T_SLEEPING: return t->wake <= G.now;
		case T_JOINING: return G.tasks[t->join_target].st == T_DONE;
		default: return false;
	}
}

static std::string wait_graph() {
	std::string s = "no task can ever run: ";
	return s + describe_tasks();
}

static int choose(YieldKind k, const int *run, int n, int def) {
	if (n == 1) return run[0];
	G.decision_points++;
	if (G.p.have_decisions) {
		while (G.dec_pos < G.p.decisions.size() && G.p.decisions[G.dec_pos].first < G.step) G.dec_pos++;
		if (G.dec_pos < G.p.decisions.size() && G.p.decisions[G.dec_pos].first == G.step) {
			int want = G.p.decisions[G.dec_pos].second;
			for (int i = 0; i < n; i++) if (run[i] == want) return want;
		}
		return def;
	}
	switch (G.p.policy) {
		case P_FIFO: return def;
		case P_STICKY: {
			bool def_is_cur = (G.cur && def == G.cur->id);
			if (def_is_cur && G.rng.chance((uint32_t) G.p.sticky_permille)) return def;
			return run[G.rng.below((uint64_t) n)];
		}
		case P_PCT: {
			// priority change points
			while (!G.pct_points.empty() && G.pct_points.back() <= G.step) {
				G.pct_points.pop_back();
				if (G.cur) { G.cur->prio = (int) G.pct_points.size(); G.st.pct_changes++; }   // below every initial priority
			}
			int best = run[0];
			for (int i = 1; i < n; i++) if (G.tasks[run[i]].prio > G.tasks[best].prio) best = run[i];
			return best;
		}
		case P_STARVE:
		case P_RANDOM:
		default: {
			if (k == Y_FN) {
				// at function entries: mostly continue, sometimes preempt
				return run[G.rng.below((uint64_t) n)];
			}
			return run[G.rng.below((uint64_t) n)];
		}
	}
}

static void reschedule(YieldKind k) {
	Task *cur = me;
	G.step++;
	G.st.steps++;
	G.st.yields[k]++;
	if (G.step > G.p.max_steps) fail("HANG", "step-budget", "step budget exhausted: " + describe_tasks());
	// fault: the operating system deschedules the running thread right before it takes or right after it released a lock, and
	// simulated time passes meanwhile (other threads handle whole messages / calls). Check-then-act and use-after-unlock windows
	// are a handful of steps wide; random task choice alone almost never keeps a task parked inside one for long enough.
	// The decision is a pure function of (run seed, step), so replays by decision list see the same injections.
	bool parked = false;
	if (G.p.preempt_permille && (k == Y_UNLOCK || k == Y_LOCK) && cur->st == T_RUNNABLE && g_preempt_on) {
		uint64_t hseed = G.p.seed ^ (G.step * 0xD1B54A32D192ED03ULL) ^ 0x5bd1e995;
		uint64_t hx = Rng::splitmix(hseed);
		if (hx % 1000 < G.p.preempt_permille) {
			cur->wake = grid_round(G.now + 1 + (hx >> 20) % ((uint64_t) G.p.preempt_max_us + 1));
			cur->st = T_SLEEPING; parked = true; G.st.preempt_injected++;
		}
	}
	int run[MAX_TASKS];
	int n = 0;
	for (;;) {
		n = 0;
		bool starved_any = false;
		for (int i = 0; i < G.ntasks; i++) {
			Task *t = &G.tasks[i];
			if (!eligible_nostarve(t)) continue;
			if (starved_now(t)) { starved_any = true; continue; }
			run[n++] = i;
		}
		if (n > 0) { if (starved_any) G.st.starve_applied++; break; }
		uint64_t mn = UINT64_MAX;
		for (int i = 0; i < G.ntasks; i++) if (G.tasks[i].st == T_SLEEPING && G.tasks[i].wake > G.now) mn = std::min(mn, G.tasks[i].wake);
		if (starved_any) mn = std::min(mn, G.p.starve_from_us + G.p.starve_for_us);
		if (mn == UINT64_MAX) fail("DEADLOCK", "wait-for", wait_graph());
		G.now = mn;
		if (G.now > G.p.max_time_us) {
			bool on_lock = false;
			for (int i = 0; i < G.ntasks; i++) if (G.tasks[i].st == T_BLOCKED) on_lock = true;
			// a task blocked on a library lock for ever vs. a poll loop that waits for an event which never comes
			if (on_lock) fail("HANG", "lock never granted", "simulated-time budget exhausted while a task waits for a lock: " + describe_tasks());
			fail("WAIT_FOREVER", "time-budget", "simulated-time budget exhausted (no lock involved): " + describe_tasks());
		}
	}
	int def = run[0];
	for (int i = 0; i < n; i++) if (run[i] == cur->id) def = cur->id;
	int chosen = choose(k, run, n, def);
	if (chosen != def) G.rec.emplace_back(G.step, chosen);
	uint64_t hv = (G.step << 16) ^ ((uint64_t) k << 8) ^ (uint64_t) chosen;
	G.hash = fnv1a_u64(G.hash, hv);
	if (g_trace_sched) fprintf(stderr, "[sched] step=%llu t=%llu kind=%d cur=%d -> %d (n=%d)\n", (unsigned long long) G.step,
	                           (unsigned long long) G.now, (int) k, cur->id, chosen, n);
	if (chosen != cur->id) {
		G.st.switches++;
		Task *nx = &G.tasks[chosen];
		G.cur = nx;
		sim_baton_post(&nx->go);
		if (cur->st != T_DONE) sim_baton_wait(&cur->go);
	}
	if (parked) cur->st = T_RUNNABLE;
}

void yield(YieldKind k) {
	if (!active()) return;
	reschedule(k);
}

// Executing code costs no simulated time, so two tasks only ever interleave when they are runnable at the same simulated instant.
// With arbitrary microsecond delays the timer-driven library threads (receiver: 5/10 ms polls, auto-flush, start-up polls) would
// almost never be runnable at the instant an application task or a bus event is. Runs with a time grid round every wake-up and
// every frame start up to a common multiple (5 ms = the receiver's poll period, or 1 ms), which makes those tasks runnable at
// the same instants - the scheduler then decides their interleaving. Grid 1 = off (free-running microsecond times).
uint64_t grid_round(uint64_t t) {
	uint64_t g = G.p.grid_us;
	if (g <= 1) return t;
	return (t + g - 1) / g * g;
}

void sleep_us(uint64_t us) {
	if (!active()) return;
	Task *t = me;
	// jitter is a pure function of (seed, step) so that a replay by decision list sees the same delays
	uint64_t jx = G.p.seed ^ (G.step * 0x9E3779B97F4A7C15ULL);
	uint64_t j = G.p.jitter_us ? Rng::splitmix(jx) % ((uint64_t) G.p.jitter_us + 1) : 0;
	t->wake = grid_round(G.now + us + j);
	t->st = T_SLEEPING;
	if (us == 0 && j == 0) t->wake = G.now;   // pure yield
	reschedule(Y_SLEEP);
	t->st = T_RUNNABLE;
}

static void *tramp(void *p) {
	Task *t = (Task *) p;
	me = t;
	sim_baton_wait(&t->go);
	if (t->cfn) t->cret = t->cfn(t->carg);
	else { tsan_harness_begin(); t->fn(); tsan_harness_end(); }
	tsan_harness_begin();
	if (!t->held.empty()) fail("LOCK_LEAK_AT_EXIT", t->name, "task exits holding locks: " + describe_tasks());
	t->st = T_DONE;
	reschedule(Y_EXIT);
	tsan_harness_end();
	return t->cret;
}

static Task *new_task(const std::string &name) {
	if (G.ntasks >= MAX_TASKS) fail("INFRA", "tasks", "too many tasks");
	Task *t = &G.tasks[G.ntasks];
	*t = Task();
	t->id = G.ntasks++;
	t->name = name;
	t->st = T_RUNNABLE;
	t->session = G.session;
	// PCT: random distinct-ish priority above the change-point range
	t->prio = G.p.pct_d + 1 + (int) G.rng.below(1000);
	if ((uint64_t) G.ntasks > G.st.max_tasks) G.st.max_tasks = (uint64_t) G.ntasks;
	return t;
}

static void start_thread(Task *t) {
	pthread_attr_t at;
	pthread_attr_init(&at);
	pthread_attr_setstacksize(&at, 1 << 20);
	if (pthread_create(&t->th, &at, tramp, t) != 0) fail("INFRA", "pthread_create", "real pthread_create failed");
	pthread_attr_destroy(&at);
	t->has_thread = true;
}

int spawn(std::function<void()> fn, const std::string &name) {
	Task *t = new_task(name);
	t->fn = std::move(fn);
	start_thread(t);
	reschedule(Y_CREATE);
	return t->id;
}

void join(int id) {
	Task *t = me;
	Task *o = &G.tasks[id];
	if (o->st != T_DONE) {
		t->join_target = id;
		t->st = T_JOINING;
		reschedule(Y_JOIN);
		t->st = T_RUNNABLE;
	}
	if (o->has_thread) { pthread_join(o->th, nullptr); o->has_thread = false; }
	o->joined++;
}

void run_begin(const SchedParams &p) {
	G.p = p;
	g_preempt_on = true;
	G.rng.seed(p.seed ^ 0x5c4ed01e5ULL);
	G.ntasks = 0;
	G.now = 0;
	G.step = 0;
	G.hash = FNV_INIT;
	G.st = RunStats();
	G.rec.clear();
	G.dec_pos = 0;
	G.decision_points = 0;
	G.tev.clear();
	G.session = 0;
	g_locks.clear();
	g_run_no++;
	G.pct_points.clear();
	if (p.policy == P_PCT) {
		for (int i = 0; i < p.pct_d; i++) G.pct_points.push_back(1 + G.rng.below((uint64_t) std::max(1, p.pct_k)));
		std::sort(G.pct_points.begin(), G.pct_points.end(), [](uint64_t a, uint64_t b) { return a > b; });
	}
	Task *t = new_task("driver");
	me = t;
	G.cur = t;
	G.running = true;
	tsan_harness_begin();
}

void run_end() {
	for (int i = 1; i < G.ntasks; i++) {
		Task &t = G.tasks[i];
		if (t.st != T_DONE) fail("INFRA", "run_end", "task not finished at run end: " + describe_tasks());
		if (t.has_thread) { pthread_join(t.th, nullptr); t.has_thread = false; }
		t.fn = nullptr;
	}
	tsan_harness_end();
	G.st.sim_time_us = G.now;
	G.running = false;
	me = nullptr;
	G.cur = nullptr;
}

// ------------------------------------------------------------------ scopes
HarnessScope::HarnessScope() { t = me; saved = t ? t->in_lib : false; if (t) { t->in_lib = false; if (saved) tsan_harness_begin(); } }
HarnessScope::~HarnessScope() { if (t) { t->in_lib = saved; if (saved) tsan_harness_end(); } }

ApiScope::ApiScope(const char *api_name) : name(api_name) {
	t = me;
	held_before = t ? t->held.size() : 0;
	saved = t ? t->in_lib : false;
	if (t) {
		if (t->api_depth++ == 0) { t->cur_api = api_name; reschedule(Y_API); t->api_invoke_step = G.step; }
		if (!t->in_lib) tsan_harness_end();     // entering library code
		t->in_lib = true;
	}
}
ApiScope::~ApiScope() {
	if (!t) return;
	if (!saved) tsan_harness_begin();            // back in harness code
	t->in_lib = saved;
	if (t->held.size() != held_before) {
		std::string d = std::string("call ") + name + " returned with a different held-lock set: " + describe_tasks();
		fail("LOCK_IMBALANCE", name, d);
	}
	if (--t->api_depth == 0) { reschedule(Y_API); t->cur_api = nullptr; }
}

// ------------------------------------------------------------------ heap attribution (ASan builds)
struct LiveEnt { uintptr_t p; size_t n; uint64_t seq; };
static bool g_leakdbg = false;
static void *(*g_live_bt)[8] = nullptr;
static __thread int g_in_bt = 0;
static const size_t LIVE_CAP = 1u << 18;
static LiveEnt *g_live = nullptr;
static int64_t g_live_bytes = 0, g_live_blocks = 0;
static uint64_t g_total_allocs = 0;
static inline size_t live_hash(uintptr_t p) { return (size_t) ((p >> 4) * 0x9E3779B97F4A7C15ULL >> 46) & (LIVE_CAP - 1); }

static void malloc_hook(const volatile void *ptr, size_t n) {
	Task *t = me;
	if (!t || !G.running || G.cur != t || !t->in_lib || t->sim_depth > 0 || !ptr || !g_live) return;
	uintptr_t p = (uintptr_t) ptr;
	size_t h = live_hash(p);
	for (size_t k = 0; k < LIVE_CAP; k++) {
		LiveEnt &e = g_live[(h + k) & (LIVE_CAP - 1)];
		if (e.p == 0 || e.p == 1) {
			e.p = p; e.n = n; e.seq = ++g_total_allocs; g_live_bytes += (int64_t) n; g_live_blocks++;
			if (g_leakdbg && g_live_bt && !g_in_bt) { g_in_bt = 1; size_t ix = (h + k) & (LIVE_CAP - 1); memset(g_live_bt[ix], 0, sizeof g_live_bt[ix]); backtrace(g_live_bt[ix], 8); g_in_bt = 0; }
			return;
		}
	}
}
static void free_hook(const volatile void *ptr) {
	if (!ptr || !g_live) return;
	uintptr_t p = (uintptr_t) ptr;
	size_t h = live_hash(p);
	for (size_t k = 0; k < LIVE_CAP; k++) {
		LiveEnt &e = g_live[(h + k) & (LIVE_CAP - 1)];
		if (e.p == 0) return;
		if (e.p == p) { e.p = 1; g_live_bytes -= (int64_t) e.n; g_live_blocks--; return; }
	}
}
int64_t lib_live_bytes() { return g_live_bytes; }
int64_t lib_live_blocks() { return g_live_blocks; }
uint64_t lib_total_allocs() { return g_total_allocs; }
void dump_live_since(uint64_t seq_marker) {
	if (!g_live) return;
	for (size_t i = 0; i < LIVE_CAP; i++) {
		LiveEnt &e = g_live[i];
		if (e.p <= 1 || e.seq <= seq_marker) continue;
		fprintf(stderr, "[live] %zu bytes seq=%llu:", e.n, (unsigned long long) e.seq);
		if (g_live_bt) for (int k = 2; k < 8 && g_live_bt[i][k]; k++) fprintf(stderr, " %s", sym(g_live_bt[i][k]).c_str());
		fprintf(stderr, "\n");
	}
}

__attribute__((constructor)) static void sim_ctor() {
	if (__sanitizer_install_malloc_and_free_hooks) {
		g_live = (LiveEnt *) calloc(LIVE_CAP, sizeof(LiveEnt));
		if (getenv("VERIF_LEAKDBG")) { g_leakdbg = true; g_live_bt = (void *(*)[8]) calloc(LIVE_CAP, sizeof(void *[8])); void *tmp[4]; backtrace(tmp, 4); }
		__sanitizer_install_malloc_and_free_hooks(malloc_hook, free_hook);
	}
}

// ------------------------------------------------------------------ library static state snapshot / restore
extern "C" {
extern char __start_libdata[] __attribute__((weak)), __stop_libdata[] __attribute__((weak));
extern char __start_libbss[] __attribute__((weak)), __stop_libbss[] __attribute__((weak));
}
static char *g_snap_data = nullptr;
__attribute__((no_sanitize("address", "thread"))) static void raw_copy(char *d, const char *s, size_t n) {
	for (size_t i = 0; i < n; i++) ((volatile char *) d)[i] = s[i];
}
__attribute__((no_sanitize("address", "thread"))) static void raw_zero(char *d, size_t n) {
	for (size_t i = 0; i < n; i++) ((volatile char *) d)[i] = 0;
}
static char *g_snap_bss = nullptr;
void lib_state_snapshot() {
	if (g_snap_data || !__start_libdata) return;
	size_t n = (size_t) (__stop_libdata - __start_libdata);
	g_snap_data = (char *) malloc(n ? n : 1);
	raw_copy(g_snap_data, __start_libdata, n);
	if (__start_libbss) {
		size_t m = (size_t) (__stop_libbss - __start_libbss);
		g_snap_bss = (char *) malloc(m ? m : 1);
		raw_copy(g_snap_bss, __start_libbss, m);
	}
}
void lib_state_restore() {
	if (!g_snap_data) return;
	raw_copy(__start_libdata, g_snap_data, (size_t) (__stop_libdata - __start_libdata));
	if (g_snap_bss) raw_copy(__start_libbss, g_snap_bss, (size_t) (__stop_libbss - __start_libbss));
	(void) raw_zero;
}

// ------------------------------------------------------------------ virtual files
static std::map<std::string, VFile> g_vfs;
static uint64_t g_vfs_opens = 0, g_vfs_open_now = 0;
uint64_t g_vfs_fault_fired[4] = {0, 0, 0, 0};
void vfs_clear() { g_vfs.clear(); g_vfs_open_now = 0; }
void vfs_put(const std::string &path, const VFile &f) { g_vfs[path] = f; }
uint64_t vfs_opens() { return g_vfs_opens; }
uint64_t vfs_open_fds() { return g_vfs_open_now; }

struct VCookie { const VFile *f; size_t pos; bool fired; };
static ssize_t vread(void *c, char *buf, size_t n) {
	VCookie *k = (VCookie *) c;
	size_t lim = k->f->content.size();
	if (k->f->fault == 2) lim = std::min(lim, k->f->fault_at);
	if (k->f->fault == 3 && k->pos >= std::min(k->f->fault_at, lim)) {
		if (!k->fired) { k->fired = true; g_vfs_fault_fired[3]++; }
		errno = EIO; return -1;
	}
	if (k->f->fault == 3) lim = std::min(lim, k->f->fault_at);
	if (k->pos >= lim) {
		if (k->f->fault == 2 && !k->fired && lim < k->f->content.size()) { k->fired = true; g_vfs_fault_fired[2]++; }
		return 0;
	}
	size_t m = std::min(n, lim - k->pos);
	memcpy(buf, k->f->content.data() + k->pos, m);
	k->pos += m;
	return (ssize_t) m;
}
static int vclose(void *c) { delete (VCookie *) c; if (g_vfs_open_now) g_vfs_open_now--; return 0; }

// ------------------------------------------------------------------ fake serial device
static SerialDev g_serial;
uint64_t g_serial_open_failed = 0, g_serial_opens = 0, g_serial_closes = 0;
void serial_set(const SerialDev &d) { g_serial = d; }

}  // namespace sim

using namespace sim;

// =================================================================== wrappers (library objects only)
namespace {
struct SimScope {
	Task *t; bool ign;
	SimScope() { t = me; ign = false; if (t) { if (t->sim_depth++ == 0 && t->in_lib) { ign = true; tsan_harness_begin(); } } }
	~SimScope() { if (t) { t->sim_depth--; if (ign) tsan_harness_end(); } }
};
}
extern "C" {

// ---- function entry instrumentation (-finstrument-functions on library objects)
void __cyg_profile_func_enter(void *fn, void *site) {
	(void) site;
	Task *t = me;
	if (!t || !G.running || G.cur != t) return;
	SimScope simscope_;
	g_reach[fn]++;
	if (g_hooks.on_fn_enter) g_hooks.on_fn_enter(fn, t);
	sim::maybe_preempt_at_call();
}
void __cyg_profile_func_exit(void *fn, void *site) { (void) fn; (void) site; }

// ---- mutex
int __wrap_pthread_mutex_init(pthread_mutex_t *m, const pthread_mutexattr_t *a) {
	SimScope simscope_;
	if (active()) {
		LockInfo *l = get_lock(m, false);
		bool waited = false;
		for (int i = 0; i < G.ntasks; i++) if (G.tasks[i].st == T_BLOCKED && G.tasks[i].wait_lock == m) waited = true;
		if (l->owner >= 0 || waited) fail("LOCK_REINIT_IN_USE", l->name, "pthread_mutex_init on a mutex that is held or waited on: " + describe_tasks());
		l->owner = -1;
	}
	return pthread_mutex_init(m, a);
}

static void note_acquire(Task *t, LockInfo *l, char mode, void *site) {
	for (auto &h : t->held) {
		OrderEdge e{h.lock, h.mode, l->id, mode};
		EdgeWitness &w = g_edges[e];
		if (w.count++ == 0) { w.site_a = h.site; w.site_b = site; w.task = t->id; }
	}
	t->held.push_back(Held{l->id, mode, site});
	l->acquisitions++;
	l->cs_count++;
	if (g_hooks.on_lock) g_hooks.on_lock(l, mode, t, true);
}
static void note_release(Task *t, LockInfo *l) {
	for (size_t i = t->held.size(); i-- > 0;) {
		if (t->held[i].lock == l->id) { char m = t->held[i].mode; t->held.erase(t->held.begin() + (long) i); if (g_hooks.on_lock) g_hooks.on_lock(l, m, t, false); return; }
	}
}
static void count_overlap(LockInfo *l, void *addr) {
	int n = 0;
	for (int i = 0; i < G.ntasks; i++) if (G.tasks[i].st == T_BLOCKED && G.tasks[i].wait_lock == addr) n++;
	n += (l->owner >= 0) + (int) l->readers.size();
	if (n >= 3) G.st.overlap3++;
}

int __wrap_pthread_mutex_lock(pthread_mutex_t *m) {
	SimScope simscope_;
	if (!active()) return pthread_mutex_lock(m);
	Task *t = me;
	void *site = __builtin_return_address(0);
	LockInfo *l = get_lock(m, false);
	reschedule(Y_LOCK);
	if (l->owner == t->id) fail("SELF_DEADLOCK", l->name, "task locks a mutex it already owns at " + sym(site) + ": " + describe_tasks());
	bool cont = false;
	while (l->owner >= 0) {
		if (!cont) { cont = true; l->contended++; G.st.lock_contended++; }
		t->wait_lock = m; t->wait_mode = 'm'; t->st = T_BLOCKED;
		count_overlap(l, m);
		reschedule(Y_LOCK);
		t->st = T_RUNNABLE;
	}
	t->wait_lock = nullptr;
	l->owner = t->id;
	note_acquire(t, l, 'm', site);
	return pthread_mutex_lock(m);
}
int __wrap_pthread_mutex_trylock(pthread_mutex_t *m) {
	SimScope simscope_;
	if (!active()) return pthread_mutex_trylock(m);
	Task *t = me;
	LockInfo *l = get_lock(m, false);
	reschedule(Y_LOCK);
	if (l->owner >= 0) return EBUSY;
	l->owner = t->id;
	note_acquire(t, l, 'm', __builtin_return_address(0));
	return pthread_mutex_trylock(m);
}
int __wrap_pthread_mutex_unlock(pthread_mutex_t *m) {
	SimScope simscope_;
	if (!active()) return pthread_mutex_unlock(m);
	Task *t = me;
	LockInfo *l = get_lock(m, false);
	if (l->owner != t->id) fail("UNLOCK_NOT_OWNER", l->name, "mutex unlocked by a task that does not own it at " + sym(__builtin_return_address(0)) + ": " + describe_tasks());
	l->owner = -1;
	note_release(t, l);
	int r = pthread_mutex_unlock(m);
	reschedule(Y_UNLOCK);
	return r;
}

// ---- rwlock (reader-preferring, glibc default)
int __wrap_pthread_rwlock_init(pthread_rwlock_t *rw, const pthread_rwlockattr_t *a) {
	SimScope simscope_;
	if (active()) {
		LockInfo *l = get_lock(rw, true);
		bool waited = false;
		for (int i = 0; i < G.ntasks; i++) if (G.tasks[i].st == T_BLOCKED && G.tasks[i].wait_lock == rw) waited = true;
		if (l->owner >= 0 || !l->readers.empty() || waited)
			fail("LOCK_REINIT_IN_USE", l->name, "pthread_rwlock_init on a lock that is held or waited on: " + describe_tasks());
	}
	return pthread_rwlock_init(rw, a);
}
int __wrap_pthread_rwlock_rdlock(pthread_rwlock_t *rw) {
	SimScope simscope_;
	if (!active()) return pthread_rwlock_rdlock(rw);
	Task *t = me;
	void *site = __builtin_return_address(0);
	LockInfo *l = get_lock(rw, true);
	reschedule(Y_LOCK);
	if (l->owner == t->id) fail("SELF_DEADLOCK", l->name, "read lock requested by the task that write-holds the lock (EDEADLK) at " + sym(site) + ": " + describe_tasks());
	bool cont = false;
	while (l->owner >= 0) {
		if (!cont) { cont = true; l->contended++; G.st.lock_contended++; }
		t->wait_lock = rw; t->wait_mode = 'r'; t->st = T_BLOCKED;
		count_overlap(l, rw);
		reschedule(Y_LOCK);
		t->st = T_RUNNABLE;
	}
	t->wait_lock = nullptr;
	l->readers[t->id]++;
	note_acquire(t, l, 'r', site);
	return pthread_rwlock_rdlock(rw);
}
int __wrap_pthread_rwlock_wrlock(pthread_rwlock_t *rw) {
	SimScope simscope_;
	if (!active()) return pthread_rwlock_wrlock(rw);
	Task *t = me;
	void *site = __builtin_return_address(0);
	LockInfo *l = get_lock(rw, true);
	reschedule(Y_LOCK);
	if (l->owner == t->id || l->readers.count(t->id))
		fail("SELF_DEADLOCK", l->name, "write lock requested by a task that already holds the lock at " + sym(site) + ": " + describe_tasks());
	bool cont = false;
	while (l->owner >= 0 || !l->readers.empty()) {
		if (!cont) { cont = true; l->contended++; G.st.lock_contended++; }
		t->wait_lock = rw; t->wait_mode = 'w'; t->st = T_BLOCKED;
		count_overlap(l, rw);
		reschedule(Y_LOCK);
		t->st = T_RUNNABLE;
	}
	t->wait_lock = nullptr;
	l->owner = t->id;
	note_acquire(t, l, 'w', site);
	return pthread_rwlock_wrlock(rw);
}
int __wrap_pthread_rwlock_unlock(pthread_rwlock_t *rw) {
	SimScope simscope_;
	if (!active()) return pthread_rwlock_unlock(rw);
	Task *t = me;
	LockInfo *l = get_lock(rw, true);
	if (l->owner == t->id) l->owner = -1;
	else {
		auto it = l->readers.find(t->id);
		if (it == l->readers.end())
			fail("UNLOCK_NOT_OWNER", l->name, "rwlock unlocked by a task that does not hold it at " + sym(__builtin_return_address(0)) + ": " + describe_tasks());
		if (--it->second == 0) l->readers.erase(it);
	}
	note_release(t, l);
	int r = pthread_rwlock_unlock(rw);
	reschedule(Y_UNLOCK);
	return r;
}

// ---- threads
int __wrap_pthread_create(pthread_t *th, const pthread_attr_t *attr, void *(*fn)(void *), void *arg) {
	SimScope simscope_;
	if (!active()) return pthread_create(th, attr, fn, arg);
	(void) attr;
	Task *t = new_task("lib:" + sym((void *) fn));
	t->cfn = fn; t->carg = arg; t->is_lib = true; t->in_lib = true;
	uint64_t h = HANDLE_BASE + (++g_handle_seq);
	g_handles[h] = HandleInfo{t->id, g_run_no, G.session, 0};
	*th = (pthread_t) h;
	G.tev.push_back(ThreadEvent{'c', t->id, me->id, G.session, false});
	start_thread(t);
	reschedule(Y_CREATE);
	return 0;
}
int __wrap_pthread_join(pthread_t th, void **ret) {
	SimScope simscope_;
	if (!active()) return pthread_join(th, ret);
	uint64_t h = (uint64_t) th;
	auto it = g_handles.find(h);
	if (it == g_handles.end() || it->second.run != g_run_no || it->second.joined > 0 || it->second.session != G.session) {
		// stale / already joined / unknown handle: undefined behaviour in a real process
		int tk = (it != g_handles.end() && it->second.run == g_run_no) ? it->second.task : -1;
		G.tev.push_back(ThreadEvent{'j', tk, me->id, G.session, true});
		char b[200];
		snprintf(b, sizeof b, "pthread_join on a handle that is %s (session now %d, handle from session %d)",
		         it == g_handles.end() ? "unknown" : it->second.joined > 0 ? "already joined" : "from an earlier session",
		         G.session, it == g_handles.end() ? -1 : it->second.session);
		fail("STALE_JOIN", sym(__builtin_return_address(0)), std::string(b) + ": " + describe_tasks());
	}
	it->second.joined++;
	int id = it->second.task;
	G.tev.push_back(ThreadEvent{'j', id, me->id, G.session, false});
	sim::join(id);
	if (ret) *ret = G.tasks[id].cret;
	return 0;
}

// ---- time
int __wrap_usleep(useconds_t us) {
	SimScope simscope_;
	if (!active()) return usleep(us);
	sim::sleep_us(us);
	return 0;
}
time_t __wrap_time(time_t *out) {
	SimScope simscope_;
	if (!active()) return time(out);
	time_t v = (time_t) ((G.p.epoch0_us + G.now) / 1000000ULL);
	if (out) *out = v;
	return v;
}
int __wrap_clock_gettime(clockid_t id, struct timespec *ts) {
	SimScope simscope_;
	if (!active()) return clock_gettime(id, ts);
	uint64_t v = G.now + (id == CLOCK_REALTIME ? G.p.epoch0_us : 1000000ULL);
	ts->tv_sec = (time_t) (v / 1000000ULL);
	ts->tv_nsec = (long) ((v % 1000000ULL) * 1000ULL);
	return 0;
}

// ---- syslog
void __wrap_openlog(const char *ident, int opt, int fac) {
	SimScope simscope_; (void) ident; (void) opt; (void) fac; }
void __wrap_closelog(void) {
	SimScope simscope_;}
void __wrap_syslog(int prio, const char *fmt, ...) {
	SimScope simscope_;
	if (!g_verbose_log && !g_hooks.on_syslog) return;
	char buf[1200];
	va_list ap;
	va_start(ap, fmt);
	vsnprintf(buf, sizeof buf, fmt, ap);
	va_end(ap);
	if (g_hooks.on_syslog) g_hooks.on_syslog(prio, buf);
	if (g_verbose_log) fprintf(stderr, "[log t=%llu task=%d p=%d] %s\n", (unsigned long long) G.now, self_id(), prio, buf);
}

// ---- files
FILE *__wrap_fopen(const char *path, const char *mode) {
	SimScope simscope_;
	if (strncmp(path, SIM_VFS_PREFIX, strlen(SIM_VFS_PREFIX)) != 0) return fopen(path, mode);
	g_vfs_opens++;
	auto it = g_vfs.find(path);
	if (it == g_vfs.end() || it->second.fault == 1) {
		if (it != g_vfs.end()) g_vfs_fault_fired[1]++;
		errno = ENOENT; return nullptr;
	}
	VCookie *c = new VCookie{&it->second, 0, false};
	cookie_io_functions_t io = {vread, nullptr, nullptr, vclose};
	FILE *f = fopencookie(c, "r", io);
	if (f) g_vfs_open_now++;
	return f;
}
int __wrap_fclose(FILE *f) {
	SimScope simscope_; return fclose(f); }

// ---- libc calls of the library as preemption points (plans with sched.libc_yield): the copy loops of the getters and the
// lookup loops of the state code have no other call between reading a pointer and using it. Non-ASan variants also get a
// deterministic heap fill for the library's own allocations.
static inline void libc_point() {
	Task *t = me;
	if (t && G.running && G.cur == t && G.p.libc_yield && t->sim_depth == 0) {
		SimScope simscope_;
		static int dbg = -1; if (dbg < 0) dbg = getenv("VERIF_DEBUG_LIBC") ? 1 : 0;
		uint64_t y0 = dbg ? G.st.yields[Y_FN] : 0;
		sim::maybe_preempt_at_call();
		if (dbg) fprintf(stderr, "[libc] task=%d api=%s step=%llu t=%llu preempted=%d\n", t->id, sim::current_api(), (unsigned long long) G.step, (unsigned long long) G.now, (int) (G.st.yields[Y_FN] != y0));
	}
}
void *__wrap_malloc(size_t n) {
	libc_point();
	void *p = malloc(n);
#ifndef SIM_VARIANT_asan
	if (p) memset(p, 0xA5, n);
#endif
	return p;
}
void __wrap_free(void *p) { libc_point(); free(p); }
char *__wrap_strdup(const char *s) { libc_point(); return strdup(s); }
char *__wrap_strndup(const char *s, size_t n) { libc_point(); return strndup(s, n); }
int __wrap_strcmp(const char *a, const char *b) { libc_point(); return strcmp(a, b); }
void *__wrap_memcpy(void *d, const void *s, size_t n) { libc_point(); return memcpy(d, s, n); }

// ---- serial device
int __wrap_open(const char *path, int flags, ...) {
	SimScope simscope_;
	if (strcmp(path, SIM_FAKE_SERIAL_PATH) != 0) {
		mode_t m = 0;
		if (flags & O_CREAT) { va_list ap; va_start(ap, flags); m = (mode_t) va_arg(ap, int); va_end(ap); }
		return open(path, flags, m);
	}
	if (!g_serial.openable) { g_serial_open_failed++; errno = ENOENT; return -1; }
	g_serial_opens++;
	return SIM_FAKE_SERIAL_FD;
}
int __wrap_close(int fd) {
	SimScope simscope_;
	if (fd == SIM_FAKE_SERIAL_FD) { g_serial_closes++; return 0; }
	if (fd < 0) { errno = EBADF; return -1; }
	if (active() && fd <= 2) return 0;   // never let the library close the harness's stdio
	return close(fd);
}
ssize_t __wrap_read(int fd, void *buf, size_t n) {
	SimScope simscope_;
	if (fd != SIM_FAKE_SERIAL_FD) return read(fd, buf, n);
	if (!g_serial.read_byte || n == 0) return 0;
	int ok = 0;
	uint8_t b = g_serial.read_byte(&ok);
	if (!ok) { errno = EAGAIN; return -1; }
	*(uint8_t *) buf = b;
	return 1;
}
ssize_t __wrap_write(int fd, const void *buf, size_t n) {
	SimScope simscope_;
	if (fd != SIM_FAKE_SERIAL_FD) return write(fd, buf, n);
	if (g_serial.write_n) g_serial.write_n((uint8_t *) buf, (int32_t) n);
	return (ssize_t) n;
}
int __wrap_tcgetattr(int fd, struct termios *t) {
	SimScope simscope_;
	if (fd != SIM_FAKE_SERIAL_FD) return tcgetattr(fd, t);
	memset(t, 0, sizeof *t);
	return 0;
}
int __wrap_tcsetattr(int fd, int opt, const struct termios *t) {
	SimScope simscope_;
	if (fd != SIM_FAKE_SERIAL_FD) return tcsetattr(fd, opt, t);
	return 0;
}

}  // extern "C"

// =================================================================== lockset monitor for GLib containers
// GLib is not instrumented: neither ThreadSanitizer nor the function-entry contract monitor sees what happens inside
// g_queue_* / g_hash_table_* / g_array_*. The library keeps all its shared collections in these containers, so every call
// that reaches one from the library's objects is intercepted here and judged with the Eraser lockset discipline:
// VIRGIN -> EXCLUSIVE(first task) -> SHARED / SHARED-MODIFIED once a second task touches the object; from then on the set of
// locks held at every access (write-mode locks only for modifying calls) is intersected; an empty set in SHARED-MODIFIED means
// no single lock protects the container. Armed only inside the running window (start returned, stop not yet called).
namespace sim {
struct LsObj { int state = 0; int first_task = -1; std::set<int> locks; bool have = false; const char *first_fn = ""; void *first_site = nullptr; std::string last; };
static std::map<void *, LsObj> g_ls;
static bool g_ls_armed = false;
static uint64_t g_ls_checks = 0, g_ls_shared = 0;
void lockset_arm(bool on) { g_ls_armed = on; g_ls.clear(); }
uint64_t lockset_checks() { return g_ls_checks; }
uint64_t lockset_shared_objects() { return g_ls_shared; }
void lockset_reset_counters() { g_ls_checks = g_ls_shared = 0; }
static void ls_forget(void *obj) { if (!g_ls.empty()) g_ls.erase(obj); }
static void ls_access(void *obj, bool write, const char *fn, void *site) {
	Task *t = me;
	// GLib is not instrumented: without this a task could never be preempted between two container operations that have no
	// library call between them (e.g. emptying and refilling an array). Only plans that ask for it (replays of older plans keep their steps).
	if (t && G.running && G.cur == t && G.p.glib_yield) maybe_preempt_at_call();
	if (!g_ls_armed || !t || !G.running || !obj) return;
	g_ls_checks++;
	LsObj &o = g_ls[obj];
	std::set<int> held;
	for (auto &h : t->held) if (!write || h.mode != 'r') held.insert(h.lock);
	std::string here = std::string(fn) + (write ? " (modifying)" : " (reading)") + " by task " + std::to_string(t->id) + " '" + t->name + "' at " + sym(site) + " holding {";
	for (auto &h : t->held) here += g_lock_names[(size_t) h.lock] + std::string(h.mode == 'r' ? ":r " : h.mode == 'w' ? ":w " : " ");
	here += "}";
	if (o.state == 0) { o.state = 1; o.first_task = t->id; o.first_fn = fn; o.first_site = site; o.last = here; return; }
	if (o.state == 1) {
		if (o.first_task == t->id) { o.last = here; return; }
		o.state = write ? 3 : 2; o.locks = held; o.have = true; g_ls_shared++;
	} else {
		std::set<int> inter;
		for (int l : o.locks) if (held.count(l)) inter.insert(l);
		o.locks = inter;
		if (write) o.state = 3;
	}
	if (o.state == 3 && o.locks.empty()) {
		std::string d = "GLib container " + sym(obj) + " is shared between tasks but no single lock is held at all of its accesses: this access: " + here + "; previous access: " + o.last;
		fail("LOCKSET_EMPTY", std::string(fn) + "<" + sym(site), d);
	}
	o.last = here;
}
}  // namespace sim

#include <glib.h>
// (--wrap is applied to the library objects only: the calls below reach GLib itself)
extern "C" {
#define LS_SITE __builtin_return_address(0)

void __wrap_g_queue_push_tail(GQueue *q, gpointer d) { { SimScope s_; sim::ls_access(q, true, "g_queue_push_tail", LS_SITE); } g_queue_push_tail(q, d); }
gpointer __wrap_g_queue_pop_head(GQueue *q) { { SimScope s_; sim::ls_access(q, true, "g_queue_pop_head", LS_SITE); } return g_queue_pop_head(q); }
gpointer __wrap_g_queue_peek_head(GQueue *q) { { SimScope s_; sim::ls_access(q, false, "g_queue_peek_head", LS_SITE); } return g_queue_peek_head(q); }
gboolean __wrap_g_queue_is_empty(GQueue *q) { { SimScope s_; sim::ls_access(q, false, "g_queue_is_empty", LS_SITE); } return g_queue_is_empty(q); }
guint __wrap_g_queue_get_length(GQueue *q) { { SimScope s_; sim::ls_access(q, false, "g_queue_get_length", LS_SITE); } return g_queue_get_length(q); }
GList *__wrap_g_queue_find_custom(GQueue *q, gconstpointer d, GCompareFunc f) { { SimScope s_; sim::ls_access(q, false, "g_queue_find_custom", LS_SITE); } return g_queue_find_custom(q, d, f); }
void __wrap_g_queue_free(GQueue *q) { { SimScope s_; sim::ls_access(q, true, "g_queue_free", LS_SITE); sim::ls_forget(q); } g_queue_free(q); }
gpointer __wrap_g_hash_table_lookup(GHashTable *h, gconstpointer k) { { SimScope s_; sim::ls_access(h, false, "g_hash_table_lookup", LS_SITE); } return g_hash_table_lookup(h, k); }
gboolean __wrap_g_hash_table_insert(GHashTable *h, gpointer k, gpointer v) { { SimScope s_; sim::ls_access(h, true, "g_hash_table_insert", LS_SITE); } return g_hash_table_insert(h, k, v); }
void __wrap_g_hash_table_iter_init(GHashTableIter *it, GHashTable *h) { { SimScope s_; sim::ls_access(h, true, "g_hash_table_iter_init", LS_SITE); } g_hash_table_iter_init(it, h); }
void __wrap_g_hash_table_destroy(GHashTable *h) { { SimScope s_; sim::ls_access(h, true, "g_hash_table_destroy", LS_SITE); sim::ls_forget(h); } g_hash_table_destroy(h); }
GArray *__wrap_g_array_append_vals(GArray *a, gconstpointer d, guint n) { { SimScope s_; sim::ls_access(a, true, "g_array_append_vals", LS_SITE); } return g_array_append_vals(a, d, n); }
GArray *__wrap_g_array_remove_range(GArray *a, guint i, guint n) { { SimScope s_; sim::ls_access(a, true, "g_array_remove_range", LS_SITE); } return g_array_remove_range(a, i, n); }
gchar *__wrap_g_array_free(GArray *a, gboolean f) { { SimScope s_; sim::ls_access(a, true, "g_array_free", LS_SITE); sim::ls_forget(a); } return g_array_free(a, f); }
}

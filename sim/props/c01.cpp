// C01 — downlink bytes are well-formed packets carrying each sent message exactly once.
#include "common.h"
#include "cfggen.h"

namespace {

struct CapAnn { uint64_t frame_id; unsigned cap; };

struct C01 : Prop {
	const char *id() const override { return "C01"; }
	std::string rule() const override {
		return "plan = 1-3 phases x 1-4 concurrent sender tasks drawing low-level send calls (edge-biased data bytes FE/FD/00/FF, "
		       "address depth 0-3, boundary-length payloads), explicit flushes, auto-flush period 0-50 ms, MSG_PKT_CAPACITY announcements "
		       "0..255 at random moments, slow-write faults; schedule from the seeded scheduler. non-trivial = run whose wire had >=1 "
		       "packet with >=2 messages and >=1 escaped byte; distinct = distinct (plan-shape hash, trace hash).";
	}

	J generate(Rng &r, const std::string &tier, uint64_t) override {
		J plan = J::obj();
		bool thorough = tier == "thorough";
		auto tree = pc::gen_tree(r, (int) r.range(1, 5));
		// normal mode (a configuration without equipment, every node unknown to it): only there MSG_PKT_CAPACITY is acted upon
		bool normal = r.chance(350);
		J bus = J::obj(); bus.set("nodes", pc::tree_json(tree)); bus.set("resp_delay_us", (int) r.range(100, 3000));
		if (normal) { cfg::install(plan, cfg::bare_world(tree), r); bus = plan["bus"]; }
		// slow writes (the send-buffer mutex is held meanwhile)
		J sw = J::arr();
		if (r.chance(300)) for (int i = 0, n = (int) r.range(1, 4); i < n; i++) { J e = J::arr(); e.push((int) r.range(1, 60)); e.push((int) r.range(100, 20000)); sw.push(e); }
		bus.set("slow_writes", sw);
		plan.set("bus", bus);
		int flush_ms = r.chance(500) ? 0 : (int) r.range(1, 50);
		J se = normal ? cfg::normal_session(0, flush_ms) : pc::debug_session(flush_ms);
		plan.set("normal", normal);
		int nph = (int) r.range(1, thorough ? 4 : 3);
		int maxtasks = 1;
		J phs = J::arr();
		if (normal) { J ph = J::obj(); ph.set("warmup", true); J post = J::arr(); post.push("quiesce"); ph.set("post", post); phs.push(ph); }
		// Keep the total response budget charged to any node over the whole run <= 48 bytes, so that no message can
		// legitimately be deferred: every accepted call is then "accepted for immediate transmission".
		std::map<uint32_t, int> used;
		std::vector<size_t> zero_budget;
		for (size_t i = 0; i < cat::table_n; i++) if (pc::resp_info(cat::table[i].type).size == 0) zero_budget.push_back(i);
		for (int p = 0; p < nph; p++) {
			J ph = J::obj();
			int nt = (int) r.range(1, 4);
			maxtasks = std::max(maxtasks, nt);
			J tasks = J::arr();
			// swarm: each phase uses a random subset of the catalogue
			std::vector<size_t> subset;
			size_t ns = (size_t) r.range(2, 12);
			for (size_t i = 0; i < ns; i++) subset.push_back(r.below(cat::table_n));
			bool big_phase = r.chance(250);   // long payloads to force the staging-buffer split
			bool storm = normal && big_phase && r.chance(600);
			for (int t = 0; t < nt; t++) {
				J ops = J::arr();
				int no = (int) r.range(2, thorough ? 40 : 22);
				for (int i = 0; i < no; i++) {
					uint64_t x = r.below(100);
					if (x < 8) { J f = J::obj(); f.set("op", "flush"); ops.push(f); continue; }
					if (x < 12) { J f = J::obj(); f.set("op", "sleep"); f.set("us", (int) r.range(100, 30000)); ops.push(f); continue; }
					const cat::LL *f = &cat::table[subset[r.below(subset.size())]];
					if (big_phase && r.chance(600)) {
						static const char *big[] = {"vendor_set", "vendor_get", "string_set", "fw_update_op_data", "bm_mirror_multiple"};
						f = cat::find(big[r.below(5)]);
					}
					const std::vector<uint8_t> &ad = f->to_interface_only ? tree[0].addr : tree[r.below(tree.size())].addr;
					uint32_t key = 0; for (size_t q = 0; q < 3; q++) key = (key << 8) | (q < ad.size() ? ad[q] : 0);
					int sz = pc::resp_info(f->type).size;
					if (used[key] + sz > 48) { f = &cat::table[zero_budget[r.below(zero_budget.size())]]; sz = 0; if (f->to_interface_only) key = 0; }
					if (f->to_interface_only && used[0] + sz > 48) continue;
					used[f->to_interface_only ? 0 : key] += sz;
					J lop = pc::ll_op(r, *f, f->to_interface_only ? tree[0].addr : ad);
					if (storm && (f->type == MSG_VENDOR_GET || f->type == MSG_STRING_SET || (f->type == MSG_FW_UPDATE_OP && std::string(f->name) == "fw_update_op_data"))) {
						// escape storm: maximal payloads made of bytes that all need escaping (two of them exceed the 312-byte staging buffer)
						cat::Bytes a; for (size_t k = 0, n = (size_t) r.range(100, 118); k < n; k++) a.push_back(r.coin() ? 0xFE : 0xFD);
						lop.set("a", hex_of(a));
					}
					ops.push(lop);
				}
				tasks.push(ops);
			}
			ph.set("tasks", tasks);
			// capacity announcements from the interface at random moments
			J ev = J::arr();
			if (storm) { J e = J::obj(); e.set("at_us", 0); e.set("node", J::arr()); e.set("type", (int) MSG_PKT_CAPACITY); e.set("data", pc::jarr({(int) r.range(240, 255)})); e.set("tag", 1); ev.push(e); }
			else if (r.chance(600)) {
				int n = (int) r.range(1, 4);
				std::vector<int> ts;
				for (int i = 0; i < n; i++) ts.push_back((int) r.range(0, 40000));
				std::sort(ts.begin(), ts.end());
				for (int i = 0; i < n; i++) {
					J e = J::obj(); e.set("at_us", ts[(size_t) i]); e.set("node", J::arr()); e.set("type", (int) MSG_PKT_CAPACITY);
					int cap = r.chance(normal ? 600 : 300) ? (int) r.range(157, 255) : (int) r.range(0, 255);
					e.set("data", pc::jarr({cap})); e.set("tag", 1);
					ev.push(e);
				}
			}
			ph.set("bus", ev);
			J post = J::arr(); post.push("quiesce"); ph.set("post", post);
			phs.push(ph);
		}
		// normal mode, one run in six: one task resets the system (flush, MSG_SYS_RESET, 1.5 s wait for the nodes to log in, new enumeration) while
		// other tasks keep submitting unanswered messages without flushing: whatever was accepted meanwhile must still reach the wire
		if (normal && r.chance(170)) {
			J ph = J::obj(); J tasks = J::arr();
			{ J ops = J::arr(); J sl = J::obj(); sl.set("op", "sleep"); sl.set("us", (int) r.range(0, 10) * 5000); ops.push(sl); J rs = J::obj(); rs.set("op", "reset"); ops.push(rs); tasks.push(ops); }
			int nt = (int) r.range(1, 3); maxtasks = std::max(maxtasks, nt + 1);
			static const char *quiet[] = {"bm_mirror_occ", "bm_mirror_free", "bm_mirror_position", "sys_clock"};
			for (int t = 0; t < nt; t++) {
				J ops = J::arr();
				for (int i = 0, n = (int) r.range(2, 8); i < n; i++) {
					if (r.chance(600)) { J sl = J::obj(); sl.set("op", "sleep"); sl.set("us", (int) r.range(1, 80) * 10000); ops.push(sl); }
					const cat::LL *f = cat::find(quiet[r.below(4)]);
					ops.push(pc::ll_op(r, *f, tree[r.below(tree.size())].addr));
				}
				tasks.push(ops);
			}
			ph.set("tasks", tasks); ph.set("reset_race", true);
			J post = J::arr(); post.push("quiesce"); ph.set("post", post);
			phs.push(ph);
		}
		se.set("phases", phs);
		J ss = J::arr(); ss.push(se); plan.set("sessions", ss);
		J sc = sched_json(r, tier, maxtasks, true);
		if (normal) cfg::starve_after_startup(sc, r);
		plan.set("sched", sc);
		return plan;
	}

	// ---- oracle state
	size_t wire_checked = 0, ops_checked = 0;
	std::vector<std::pair<uint64_t, unsigned>> ann_first;   // (first_read_step, cap) in arrival order
	std::vector<uint64_t> ann_proc;                         // processed step per announcement (0 = not yet)
	std::map<uint64_t, size_t> ann_by_frame;
	uint64_t last_pkt_step = 0;
	size_t last_pkt_index = (size_t) -1;
	bool saw_multi = false, saw_escape = false;

	void attach(Engine &e) override {
		wire_checked = ops_checked = 0; flush_barriers = 0; ann_first.clear(); ann_proc.clear(); ann_by_frame.clear();
		last_pkt_step = 0; last_pkt_index = (size_t) -1; saw_multi = saw_escape = false;
		e.bus.on_delivered = [this, &e](bus::UpFrame &f) {
			(void) e;
			// every capacity announcement counts, whoever sends it (answers to bidib_send_get_pkt_capacity included); with several
			// in one frame the largest is taken (lenient)
			unsigned cap = 0;
			for (auto &m : f.msgs) if (m.type == MSG_PKT_CAPACITY && !m.data.empty()) { unsigned v = m.data[0]; cap = std::max(cap, v <= 64 ? 64u : v); }
			if (cap) {
				ann_by_frame[f.id] = ann_first.size();
				ann_first.push_back({f.first_read_step, cap});
				ann_proc.push_back(0);
			}
		};
		e.bus.on_processed = [this](bus::UpFrame &f) {
			auto it = ann_by_frame.find(f.id);
			if (it != ann_by_frame.end()) ann_proc[it->second] = f.processed_step;
		};
		e.bus.on_wire = [this, &e](const bus::WireRec &w) {
			if (w.idx_in_pkt != 0) return;
			// (d) capacity bound for packets carrying more than one message
			if (w.pkt_msgs >= 2) {
				saw_multi = true;
				e.probe("frame_multi_msg");
				uint64_t a = last_pkt_step, b = w.step;
				unsigned bound = 0;
				bool initial_possible = true;
				for (size_t i = 0; i < ann_first.size(); i++) if (ann_proc[i] && ann_proc[i] <= a) initial_possible = false;
				if (initial_possible) bound = 64;
				for (size_t i = 0; i < ann_first.size(); i++) {
					if (ann_first[i].first > b) continue;
					bool superseded = false;
					for (size_t j = i + 1; j < ann_first.size(); j++) if (ann_proc[j] && ann_proc[j] <= a) superseded = true;
					if (!superseded) bound = std::max(bound, ann_first[i].second);
				}
				if (w.pkt_payload > bound) {
					char d[256];
					snprintf(d, sizeof d, "packet #%zu carries %zu messages in %zu payload bytes, but the largest packet capacity that can have been in force while it was filled is %u",
					         w.pkt_index, w.pkt_msgs, w.pkt_payload, bound);
					e.violate("PKT_OVER_CAPACITY", "multi-message packet", d);
				}
				if (bound > 64) e.probe("capacity_raised_in_force");
			}
			last_pkt_step = w.step;
		};
		e.bus.on_write_raw = [this, &e](const uint8_t *, int32_t n) {
			if (n > 300) e.probe("staging_split_sized_write");
		};
	}

	void check_framing(Engine &e, bool at_rest) {
		if (!e.bus.dec.error.empty())
			e.violate("FRAMING", "downlink byte stream", e.bus.dec.error + " (after " + std::to_string(e.bus.dec.total) + " bytes, " + std::to_string(e.bus.dec.frames) + " good packets)");
		if (at_rest && !e.bus.dec.idle())
			e.violate("FRAMING", "downlink byte stream", "stream ends inside a packet after flush at quiescence");
	}

	// (e) bidib_flush is a barrier for the caller's own earlier messages: no message of a C01 run can be deferred (budgets are kept free), so
	// when a task's flush returns, everything that task submitted before it must have been written (by this flush or by anybody's earlier one)
	uint64_t flush_barriers = 0;
	void after_op(Engine &e, OpRec &o) override {
		check_framing(e, false);
		if (o.op->gets("op") != "flush") return;
		std::map<std::string, int> own, wire;
		for (auto &q : e.oplog) if (q.session == o.session && q.phase == o.phase && q.task == o.task && q.idx < o.idx && q.op->gets("op") == "ll") own[pc::msg_key(pc::ll_expected(*q.op))]++;
		if (own.empty()) return;
		flush_barriers++;
		for (size_t i = wire_checked; i < e.bus.wire.size(); i++) wire[pc::msg_key(e.bus.wire[i].msg)]++;
		for (auto &kv : own) {
			int g = wire.count(kv.first) ? wire[kv.first] : 0;
			if (g < kv.second) e.violate("NOT_FLUSHED", "bidib_flush as a barrier", "bidib_flush returned to task " + std::to_string(o.task) + " but message " + kv.first + ", which the same task had submitted before (" + std::to_string(kv.second) + "x), is on the wire only " + std::to_string(g) + "x");
		}
	}

	void at_quiescence(Engine &e, int s, int p) override {
		check_framing(e, true);
		if (e.bus.dec.escapes > 0) saw_escape = true;
		if (e.plan["sessions"][(size_t) s]["phases"][(size_t) p].getb("warmup")) {
			// the start-up dialogue of a normal-mode session is the library's own traffic (C20's subject): framing only
			wire_checked = e.bus.wire.size(); ops_checked = e.oplog.size(); e.probe("normal_mode_sessions");
			return;
		}
		// (c) multiset equality between accepted calls and wire messages since the last check
		std::map<std::string, int> exp, got;
		for (; ops_checked < e.oplog.size(); ops_checked++) {
			const OpRec &o = e.oplog[ops_checked];
			if (o.op->gets("op") != "ll") continue;
			exp[pc::msg_key(pc::ll_expected(*o.op))]++;
		}
		for (; wire_checked < e.bus.wire.size(); wire_checked++) got[pc::msg_key(e.bus.wire[wire_checked].msg)]++;
		for (auto &kv : exp) {
			int g = got.count(kv.first) ? got[kv.first] : 0;
			if (g < kv.second) e.violate("MSG_MISSING", "wire vs accepted calls", "message " + kv.first + " submitted " + std::to_string(kv.second) + "x but on the wire " + std::to_string(g) + "x after flush at quiescence");
			if (g > kv.second) e.violate("MSG_DUPLICATED", "wire vs accepted calls", "message " + kv.first + " submitted " + std::to_string(kv.second) + "x but on the wire " + std::to_string(g) + "x");
		}
		// (a phase with a system reset carries the library's own reset / enumeration dialogue as well: C20's subject)
		bool reset_race = e.plan["sessions"][(size_t) s]["phases"][(size_t) p].getb("reset_race");
		if (reset_race) e.probe("reset_race_phases");
		for (auto &kv : got) if (!exp.count(kv.first) && !reset_race) e.violate("MSG_UNEXPECTED", "wire vs accepted calls", "wire carries " + kv.first + " which no call produced (torn or corrupted message)");
	}

	void at_end(Engine &e) override { check_framing(e, false); }

	void coverage(Engine &e, J &f) override {
		f.set("nontrivial", saw_multi && e.bus.dec.escapes > 0);
		f.set("shape", (long long) (pc::shape_hash(e.plan) >> 1));
		J p = J::obj();
		p.set("crc_escaped", (long long) e.bus.dec.crc_escapes);
		p.set("escaped_bytes", (long long) e.bus.dec.escapes);
		p.set("packets", (long long) e.bus.dec.frames);
		p.set("capacity_announcements", (long long) ann_first.size());
		p.set("max_write_bytes_ge_200", e.bus.max_write >= 200 ? 1 : 0);
		p.set("flush_barriers_judged", (long long) flush_barriers);
		f.set("probes", p);
	}
};

}  // namespace

Prop *make_c01() { return new C01(); }

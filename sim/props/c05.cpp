// C05 — per-node sequence numbers are consecutive in wire order under any interleaving.
#include "common.h"

namespace {

struct C05 : Prop {
	const char *id() const override { return "C05"; }
	std::string rule() const override {
		return "plan = optional sequential prefix of 240-256 messages to one node (puts the 255->1 wrap into the concurrent phase), then 1-2 phases of "
		       "2-16 concurrent sender tasks calling low-level send functions for the same and different nodes (requests are deferred by the response budget "
		       "and released by the receiver task), normal-mode variant with MSG_SYS_RESET; schedules: pct(1-4), random walk, sticky, starve, function-entry "
		       "preemption. non-trivial = >=2 tasks had overlapping send calls to the same node; distinct = (plan-shape, trace hash).";
	}
	J generate(Rng &r, const std::string &tier, uint64_t) override {
		bool thorough = tier == "thorough";
		J plan = J::obj();
		auto tree = pc::gen_tree(r, (int) r.range(1, 4));
		J bus = J::obj(); bus.set("nodes", pc::tree_json(tree)); bus.set("resp_delay_us", (int) r.range(100, 4000));
		plan.set("bus", bus);
		J se = pc::debug_session(r.chance(600) ? 0 : (int) r.range(1, 30));
		J phs = J::arr();
		std::vector<size_t> zero_budget;
		for (size_t i = 0; i < cat::table_n; i++) if (pc::resp_info(cat::table[i].type).size == 0 && !cat::table[i].to_interface_only) zero_budget.push_back(i);
		const std::vector<uint8_t> &hot = tree[r.below(tree.size())].addr;
		if (r.chance(350)) {
			// wrap prefix
			J ph = J::obj(); J ops = J::arr();
			int n = (int) r.range(240, 256);
			const cat::LL &f = cat::table[zero_budget[r.below(zero_budget.size())]];
			for (int i = 0; i < n; i++) ops.push(pc::ll_op(r, f, hot));
			J tasks = J::arr(); tasks.push(ops); ph.set("tasks", tasks);
			J post = J::arr(); post.push("quiesce"); ph.set("post", post);
			phs.push(ph);
		}
		int nph = (int) r.range(1, 2), maxt = 2;
		for (int p = 0; p < nph; p++) {
			J ph = J::obj();
			int nt = (int) r.range(2, thorough ? 16 : 8);
			maxt = std::max(maxt, nt);
			J tasks = J::arr();
			bool only_cheap = r.chance(400);
			for (int t = 0; t < nt; t++) {
				J ops = J::arr();
				int no = (int) r.range(1, thorough ? 20 : 10);
				for (int i = 0; i < no; i++) {
					if (r.chance(60)) { J f = J::obj(); f.set("op", "flush"); ops.push(f); continue; }
					const cat::LL *f = only_cheap ? &cat::table[zero_budget[r.below(zero_budget.size())]] : &cat::table[r.below(cat::table_n)];
					const std::vector<uint8_t> &ad = r.chance(700) ? hot : tree[r.below(tree.size())].addr;
					ops.push(pc::ll_op(r, *f, ad));
				}
				tasks.push(ops);
			}
			ph.set("tasks", tasks);
			J post = J::arr(); post.push("quiesce"); ph.set("post", post);
			phs.push(ph);
		}
		se.set("phases", phs);
		J ss = J::arr(); ss.push(se); plan.set("sessions", ss);
		plan.set("sched", sched_json(r, tier, maxt, true));
		return plan;
	}

	std::map<uint32_t, std::vector<size_t>> per_node;   // wire indices per destination
	size_t checked = 0;
	bool overlap_same_node = false;
	uint64_t wraps = 0;

	void attach(Engine &e) override {
		per_node.clear(); checked = 0; overlap_same_node = false; wraps = 0;
		(void) e;
	}

	static uint8_t nxt(uint8_t s) { return s == 255 ? 1 : (uint8_t) (s + 1); }

	void at_quiescence(Engine &e, int, int) override {
		for (; checked < e.bus.wire.size(); checked++) per_node[e.bus.wire[checked].msg.addr_key()].push_back(checked);
		for (auto &kv : per_node) {
			uint8_t exp = 1;
			const std::vector<size_t> &ix = kv.second;
			for (size_t k = 0; k < ix.size(); k++) {
				const bus::WireRec &w = e.bus.wire[ix[k]];
				if (w.msg.seq == 255) wraps++;
				if (w.msg.seq != exp) {
					// classify: is the set of numbers right and only the order wrong?
					std::vector<int> got, want;
					uint8_t x = 1;
					for (size_t q = 0; q < ix.size(); q++) { got.push_back(e.bus.wire[ix[q]].msg.seq); want.push_back(x); x = nxt(x); }
					std::vector<int> gs = got, ws = want;
					std::sort(gs.begin(), gs.end()); std::sort(ws.begin(), ws.end());
					char d[400];
					snprintf(d, sizeof d, "node %s: wire position %zu carries sequence number %u, expected %u (message type 0x%02x, written by task %d at step %llu)",
					         w.msg.addr_str().c_str(), k, w.msg.seq, exp, w.msg.type, w.task, (unsigned long long) w.step);
					(void) ws;
					bool zero = false, dupl = false, increasing = true;
					for (size_t q = 0; q < got.size(); q++) { if (got[q] == 0) zero = true; if (q && got[q] <= got[q - 1] && !(got[q - 1] > 200 && got[q] < 50)) increasing = false; }
					for (size_t q = 1; q < gs.size(); q++) if (gs[q] == gs[q - 1] && ix.size() < 255) dupl = true;
					if (zero) e.violate("SEQ_ZERO", "number 0 while numbering is enabled", d);
					if (dupl) e.violate("SEQ_DUPLICATE", "same number used twice", d);
					if (!increasing) e.violate("SEQ_OUT_OF_ORDER", "numbers allocated in one order, buffered in another", d);
					e.violate("SEQ_GAP", k > 250 ? "around wrap" : "value", d);
				}
				exp = nxt(exp);
			}
		}
	}

	void coverage(Engine &e, J &f) override {
		// interest: overlapping send calls of different tasks to the same node
		std::map<uint32_t, std::vector<std::pair<uint64_t, uint64_t>>> iv;
		std::map<uint32_t, std::vector<int>> tk;
		bool ov = false;
		for (auto &o : e.oplog) {
			if (o.op->gets("op") != "ll") continue;
			ref::Msg m = pc::ll_expected(*o.op);
			uint32_t k = m.addr_key();
			auto &v = iv[k]; auto &t = tk[k];
			for (size_t i = 0; i < v.size() && !ov; i++) if (t[i] != o.task && v[i].first < o.ret_step && o.inv_step < v[i].second) ov = true;
			v.push_back({o.inv_step, o.ret_step}); t.push_back(o.task);
		}
		f.set("nontrivial", ov);
		f.set("shape", (long long) (pc::shape_hash(e.plan) >> 1));
		J p = J::obj(); p.set("wrap_255_seen", (long long) wraps); p.set("overlapping_same_node_runs", ov ? 1 : 0);
		f.set("probes", p);
	}
};

}  // namespace

Prop *make_c05() { return new C05(); }

// C05 — per-node sequence numbers are consecutive in wire order under any interleaving.
#include "common.h"
#include "cfggen.h"

namespace {

struct C05 : Prop {
	const char *id() const override { return "C05"; }
	std::string rule() const override {
		return "plan = optional sequential prefix of 240-256 messages to one node (puts the 255->1 wrap into the concurrent phase), then 1-2 phases of "
		       "2-16 concurrent sender tasks calling low-level send functions for the same and different nodes (requests are deferred by the response budget "
		       "and released by the receiver task), normal-mode variant with MSG_SYS_RESET; schedules: pct(1-4), random walk, sticky, starve, function-entry "
		       "preemption. non-trivial = >=2 tasks had overlapping send calls to the same node; distinct = (plan-shape, trace hash).";
	}
	J generate(Rng &r, const std::string &tier, uint64_t) override {
		bool thorough = tier == "thorough";
		J plan = J::obj();
		auto tree = pc::gen_tree(r, (int) r.range(1, 4));
		J bus = J::obj(); bus.set("nodes", pc::tree_json(tree)); bus.set("resp_delay_us", (int) r.range(100, 4000));
		// bus faults on the answers (lost, duplicated with the same / the next number, numbering of a node jumps): the uplink side of
		// the sequence bookkeeping must never leak into the numbers of the messages the library sends
		bool normal = r.chance(300);
		if (!normal && r.chance(400)) {
			J af = J::arr();
			for (int i = 0, n = (int) r.range(1, 6); i < n; i++) {
				bus::Fault f; uint64_t x = r.below(3);
				if (x == 0) f.kind = "lose"; else if (x == 1) { f.kind = "dup"; f.a = (int64_t) r.below(2); } else { f.kind = "seqjump"; f.a = (int64_t) r.range(1, 255); }
				J e = J::arr(); e.push((int) r.range(1, 30)); e.push(bus::fault_json(f)); af.push(e);
			}
			bus.set("answer_faults", af);
		}
		plan.set("bus", bus);
		// normal mode (configuration without equipment): connection probing with numbering off, SYS_RESET restarts the numbering
		if (normal) cfg::install(plan, cfg::bare_world(tree), r);
		plan.set("normal", normal);
		int flush_ms = r.chance(600) ? 0 : (int) r.range(1, 30);
		J se = normal ? cfg::normal_session(0, flush_ms) : pc::debug_session(flush_ms);
		J phs = J::arr();
		if (normal) { J ph = J::obj(); J post = J::arr(); post.push("quiesce"); ph.set("post", post); phs.push(ph); }
		std::vector<size_t> zero_budget;
		for (size_t i = 0; i < cat::table_n; i++) if (pc::resp_info(cat::table[i].type).size == 0 && !cat::table[i].to_interface_only) zero_budget.push_back(i);
		const std::vector<uint8_t> &hot = tree[r.below(tree.size())].addr;
		if (r.chance(350)) {
			// wrap prefix
			J ph = J::obj(); J ops = J::arr();
			int n = (int) r.range(240, 256);
			const cat::LL &f = cat::table[zero_budget[r.below(zero_budget.size())]];
			for (int i = 0; i < n; i++) ops.push(pc::ll_op(r, f, hot));
			J tasks = J::arr(); tasks.push(ops); ph.set("tasks", tasks);
			J post = J::arr(); post.push("quiesce"); ph.set("post", post);
			phs.push(ph);
		}
		// normal mode, one run in three: a node stops answering one kind of request, its response budget fills and further messages for it are held back
		// (numbered already); then another node is reported lost and / or the application resets the system - the held messages must not leave a hole
		// in anybody's numbering, and a reset restarts the numbering of that node too
		if (normal && r.chance(350)) {
			J b2 = plan["bus"]; J da = J::arr(); da.push((int) MSG_SYS_SW_VERSION); b2.set("drop_answers", da); plan.set("bus", b2);
			const cat::LL &cheap = cat::table[zero_budget[r.below(zero_budget.size())]];
			{ J ph = J::obj(); J ops = J::arr(); for (int i = 0, n = (int) r.range(9, 13); i < n; i++) ops.push(pc::ll_op(r, *cat::find("sys_get_sw_version"), hot)); J fl = J::obj(); fl.set("op", "flush"); ops.push(fl);
			  J tasks = J::arr(); tasks.push(ops); ph.set("tasks", tasks);
			  std::vector<std::vector<uint8_t>> others; for (auto &n : tree) if (!n.addr.empty() && n.addr != hot && n.addr.size() == 1) others.push_back(n.addr);
			  if (!others.empty() && r.chance(600)) { J ev = J::arr(); J e = J::obj(); e.set("at_us", 20000); e.set("topo", "lost"); e.set("node", pc::jaddr(others[r.below(others.size())])); ev.push(e); ph.set("bus", ev); }
			  J post = J::arr(); post.push("quiesce"); ph.set("post", post); phs.push(ph); }
			{ J ph = J::obj(); J ops = J::arr(); for (int i = 0, n = (int) r.range(1, 4); i < n; i++) ops.push(pc::ll_op(r, cheap, hot)); J tasks = J::arr(); tasks.push(ops); ph.set("tasks", tasks);
			  if (r.coin()) { J pre = J::arr(); J ro = J::obj(); ro.set("op", "reset"); pre.push(ro); ph.set("pre", pre); }
			  J post = J::arr(); post.push("quiesce"); ph.set("post", post); phs.push(ph); }
		}
		int nph = (int) r.range(normal ? 2 : 1, 2), maxt = 2;
		for (int p = 0; p < nph; p++) {
			J ph = J::obj();
			int nt = (int) r.range(2, thorough ? 16 : 8);
			maxt = std::max(maxt, nt);
			J tasks = J::arr();
			bool only_cheap = r.chance(400);
			for (int t = 0; t < nt; t++) {
				J ops = J::arr();
				int no = (int) r.range(1, thorough ? 20 : 10);
				for (int i = 0; i < no; i++) {
					if (r.chance(60)) { J f = J::obj(); f.set("op", "flush"); ops.push(f); continue; }
					const cat::LL *f = only_cheap ? &cat::table[zero_budget[r.below(zero_budget.size())]] : &cat::table[r.below(cat::table_n)];
					const std::vector<uint8_t> &ad = r.chance(700) ? hot : tree[r.below(tree.size())].addr;
					ops.push(pc::ll_op(r, *f, ad));
				}
				tasks.push(ops);
			}
			ph.set("tasks", tasks);
			// a system reset between two concurrent phases (sequential: the property says nothing about senders racing the reset)
			if (normal && p > 0 && r.chance(600)) { J pre = J::arr(); J ro = J::obj(); ro.set("op", "reset"); pre.push(ro); ph.set("pre", pre); }
			J post = J::arr(); post.push("quiesce"); ph.set("post", post);
			phs.push(ph);
		}
		se.set("phases", phs);
		J ss = J::arr(); ss.push(se); plan.set("sessions", ss);
		J sc = sched_json(r, tier, maxt, true);
		if (normal) cfg::starve_after_startup(sc, r);
		plan.set("sched", sc);
		return plan;
	}

	bool overlap_same_node = false;
	uint64_t wraps = 0, resets_seen = 0, probing_zero = 0;

	void attach(Engine &e) override { overlap_same_node = false; wraps = resets_seen = probing_zero = 0; (void) e; }

	static uint8_t nxt(uint8_t s) { return s == 255 ? 1 : (uint8_t) (s + 1); }

	// One pass over the whole wire in transmission order. Numbering per destination starts at 1; number 0 is legitimate only for the
	// probe messages of a normal-mode start (SYS_DISABLE, SYS_GET_MAGIC to the interface, before the first numbered message); a
	// SYS_RESET on the wire restarts every node's numbering.
	void at_quiescence(Engine &e, int, int) override {
		bool normal = e.plan.getb("normal");
		std::map<uint32_t, uint8_t> exp;
		std::map<uint32_t, std::vector<int>> got;      // numbers per node since the last reset (diagnosis)
		bool probing = normal;
		wraps = resets_seen = probing_zero = 0;
		for (size_t i = 0; i < e.bus.wire.size(); i++) {
			const bus::WireRec &w = e.bus.wire[i];
			uint32_t key = w.msg.addr_key();
			if (probing) {
				if (w.msg.seq == 0 && w.msg.addr.empty() && (w.msg.type == MSG_SYS_DISABLE || w.msg.type == MSG_SYS_GET_MAGIC)) { probing_zero++; continue; }
				probing = false;
			}
			uint8_t want = exp.count(key) ? exp[key] : 1;
			auto &g = got[key]; g.push_back(w.msg.seq);
			if (w.msg.seq == 255) wraps++;
			if (w.msg.seq != want) {
				char d[400];
				snprintf(d, sizeof d, "node %s: message #%zu to it since the last reset carries sequence number %u, expected %u (message type 0x%02x, written by task %d at step %llu)",
				         w.msg.addr_str().c_str(), g.size() - 1, w.msg.seq, want, w.msg.type, w.task, (unsigned long long) w.step);
				// look ahead to the end of this numbering epoch to classify
				for (size_t j = i + 1; j < e.bus.wire.size(); j++) { const bus::WireRec &x = e.bus.wire[j]; if (x.msg.type == MSG_SYS_RESET && x.msg.addr.empty()) break; if (x.msg.addr_key() == key) g.push_back(x.msg.seq); }
				bool zero = false, dupl = false, increasing = true;
				for (size_t q = 0; q < g.size(); q++) { if (g[q] == 0) zero = true; if (q && g[q] <= g[q - 1] && !(g[q - 1] > 200 && g[q] < 50)) increasing = false; }
				std::vector<int> gs = g; std::sort(gs.begin(), gs.end());
				for (size_t q = 1; q < gs.size(); q++) if (gs[q] == gs[q - 1] && g.size() < 255) dupl = true;
				if (zero) e.violate("SEQ_ZERO", "number 0 while numbering is enabled", d);
				if (dupl) e.violate("SEQ_DUPLICATE", "same number used twice", d);
				if (!increasing) e.violate("SEQ_OUT_OF_ORDER", "numbers allocated in one order, buffered in another", d);
				e.violate("SEQ_GAP", g.size() > 250 ? "around wrap" : "value", d);
			}
			exp[key] = nxt(want);
			if (w.msg.type == MSG_SYS_RESET && w.msg.addr.empty()) { exp.clear(); got.clear(); resets_seen++; }
		}
	}

	void coverage(Engine &e, J &f) override {
		// interest: overlapping send calls of different tasks to the same node
		std::map<uint32_t, std::vector<std::pair<uint64_t, uint64_t>>> iv;
		std::map<uint32_t, std::vector<int>> tk;
		bool ov = false;
		for (auto &o : e.oplog) {
			if (o.op->gets("op") != "ll") continue;
			ref::Msg m = pc::ll_expected(*o.op);
			uint32_t k = m.addr_key();
			auto &v = iv[k]; auto &t = tk[k];
			for (size_t i = 0; i < v.size() && !ov; i++) if (t[i] != o.task && v[i].first < o.ret_step && o.inv_step < v[i].second) ov = true;
			v.push_back({o.inv_step, o.ret_step}); t.push_back(o.task);
		}
		f.set("nontrivial", ov);
		f.set("shape", (long long) (pc::shape_hash(e.plan) >> 1));
		J p = J::obj(); p.set("wrap_255_seen", (long long) wraps); p.set("sys_resets_on_wire", (long long) resets_seen); p.set("probe_messages_numbered_0", (long long) probing_zero); p.set("overlapping_same_node_runs", ov ? 1 : 0);
		f.set("probes", p);
	}
};

}  // namespace

Prop *make_c05() { return new C05(); }

// C02 — uplink decoding: good packets delivered in order once, bad-CRC packets dropped.
#include "common.h"
#include "cfggen.h"

namespace {

struct Tok { bool wild; std::vector<uint8_t> raw; };

struct C02 : Prop {
	const char *id() const override { return "C02"; }
	std::string rule() const override {
		return "plan (debug mode, every message surfaces through bidib_read_message) = byte stream built from random well-formed packets (1-6 messages, "
		       "address depth 0-3, arbitrary data incl. bytes needing escapes, any sequence number) interleaved with corrupted copies (bit flip, dropped / "
		       "inserted byte, truncation, extra delimiters), noise between packets and arbitrary chunking across read polls; second workload loops the "
		       "library's own downlink back into its receiver. The same delivered bytes are decoded by the independent reference codec; messages read must equal "
		       "the GOOD frames' messages in order, exactly once; runs with 2-3 sessions (a stream may end inside a packet; each session is judged on its own stream: nothing "
		       "of an earlier session's partial packet may reach the next one); normal-mode runs in which error-class messages (SYS_ERROR, NODE_NA, FEATURE_NA, LC_NA) and "
		       "bit-flipped copies arrive while an application task drains bidib_read_error_message under the GLib-container lockset monitor. "
		       "non-trivial = a GOOD frame follows a corrupted one; distinct = (plan-shape, trace hash).";
	}

	static ref::Msg rnd_msg(Rng &r) {
		ref::Msg m;
		size_t depth = (size_t) r.below(4);
		for (size_t i = 0; i < depth; i++) m.addr.push_back((uint8_t) r.range(1, 255));
		m.seq = r.chance(200) ? 0 : r.byte();
		do { m.type = r.chance(700) ? (uint8_t) (0x80 | r.below(128)) : r.byte(); } while (m.type == MSG_STALL);
		size_t dl = r.chance(100) ? (size_t) r.range(20, 30) : (size_t) r.below(9);
		for (size_t i = 0; i < dl; i++) m.data.push_back(cat::edge_byte(r));
		return m;
	}

	// normal mode: error-class messages (MSG_SYS_ERROR, MSG_NODE_NA, MSG_FEATURE_NA, MSG_LC_NA) surface in the error queue; a reader thread
	// polls bidib_read_error_message while the packets (good ones and corrupted copies) arrive - in stream order, each exactly once
	J generate_error_class(Rng &r, const std::string &tier) {
		J plan = J::obj();
		auto tree = pc::gen_tree(r, 3);
		cfg::install(plan, cfg::bare_world(tree), r);
		J se = cfg::normal_session(0, 0);
		J phs = J::arr();
		{ J ph = J::obj(); J pre = J::arr(); for (const char *q : {"read", "read_err", "read_intern"}) { J d = J::obj(); d.set("op", "drain"); d.set("q", q); pre.push(d); } ph.set("pre", pre); ph.set("err_begin", true); J post = J::arr(); post.push("quiesce"); ph.set("post", post); phs.push(ph); }
		J ph = J::obj(); J ev = J::arr(); int t = 0;
		for (int k = 0, n = (int) r.range(3, tier == "thorough" ? 40 : 20); k < n; k++) {
			ref::Msg m; m.addr = tree[r.below(tree.size())].addr; m.seq = r.byte();
			static const uint8_t et[] = {MSG_SYS_ERROR, MSG_NODE_NA, MSG_FEATURE_NA, MSG_LC_NA};
			m.type = et[r.below(4)];
			if (m.type == MSG_SYS_ERROR) m.data = {(uint8_t) (r.coin() ? 0x00 : 0x21), (uint8_t) k}; else if (m.type == MSG_LC_NA) m.data = {(uint8_t) k, cat::edge_byte(r)}; else m.data = {(uint8_t) k};
			if (m.type == MSG_SYS_ERROR) m.data = {0x02, (uint8_t) k};     // BIDIB_ERR_CRC with the message number as parameter: unique per message
			std::vector<uint8_t> bytes = ref::frame_msgs({m});
			const char *inj = nullptr;
			if (r.chance(250)) { size_t pos = 1 + (size_t) r.below(bytes.size() - 2); bytes[pos] ^= (uint8_t) (1u << r.below(8)); inj = "bit-flip"; }
			J e = J::obj(); t += (int) r.range(0, 2) * 5000; e.set("at_us", t); e.set("raw", hex_of(bytes)); if (inj) e.set("inj", inj); ev.push(e);
		}
		ph.set("bus", ev);
		J ops = J::arr();
		for (int i = 0, n = (int) r.range(4, 30); i < n; i++) { J o = J::obj(); if (r.chance(650)) o.set("op", "read_err"); else { o.set("op", "sleep"); o.set("us", 5000); } ops.push(o); }
		J tasks = J::arr(); tasks.push(ops); ph.set("tasks", tasks);
		J post = J::arr(); post.push("quiesce_noflush"); ph.set("post", post); phs.push(ph);
		{ J rp = J::obj(); J pre = J::arr(); J d = J::obj(); d.set("op", "drain"); d.set("q", "read_err"); pre.push(d); rp.set("pre", pre); J post2 = J::arr(); post2.push("quiesce_noflush"); rp.set("post", post2); phs.push(rp); }
		se.set("phases", phs);
		J ss = J::arr(); ss.push(se); plan.set("sessions", ss);
		plan.set("sched", sched_json(r, tier, 2, true));
		plan.set("error_class", true); plan.set("loopback", false);
		return plan;
	}

	J generate(Rng &r, const std::string &tier, uint64_t) override {
		bool thorough = tier == "thorough";
		J plan = J::obj();
		J bus = J::obj(); bus.set("nodes", J::arr()); bus.set("auto_answer", false);
		plan.set("bus", bus);
		if (r.chance(130)) return generate_error_class(r, tier);
		bool loop = r.chance(200);
		// restart: a second session in the same process; the first one ends in the middle of a packet (the framing state of the receiver
		// must not survive bidib_stop)
		int nsess = (!loop && r.chance(200)) ? 2 : 1;
		J ss = J::arr();
		for (int sess = 0; sess < nsess; sess++) {
		J se = pc::debug_session(0);
		J phs = J::arr();
		std::map<uint32_t, int> used;      // response budget charged per node over the whole session (nothing is answered: no message may ever be deferred)
		std::map<uint32_t, int> seqs;      // sequence number the library will use next for a node (loop-back plans: one task, debug mode)
		int nph = (int) r.range(1, thorough ? 4 : 2);
		// one stream session in sixteen: a burst of 129-190 intact single-message packets that nobody reads meanwhile - the queue keeps the
		// newest 128 (README), still in stream order
		bool overflow = !loop && nsess == 1 && r.chance(60);
		if (overflow) { nph = 1; se.set("overflow", true); }
		for (int p = 0; p < nph; p++) {
			J ph = J::obj();
			if (loop) {
				// phase: send calls (nothing is answered), then loop the recorded downlink back
				J ops = J::arr();
				int no = (int) r.range(3, 25);
				for (int i = 0; i < no; i++) {
					const cat::LL *f = &cat::table[r.below(cat::table_n)];
					if (r.chance(400)) {
						// a packet of its own (flush before and after) whose CRC byte is one of the values next to / equal to the reserved
						// bytes: the data byte of a MSG_SYS_PING is solved for it (single task, debug mode: the sequence number is known)
						std::vector<uint8_t> ad; size_t depth = (size_t) r.below(4);
						for (size_t q = 0; q < depth; q++) ad.push_back((uint8_t) r.range(1, 255));
						uint32_t key = 0; for (size_t q = 0; q < 3; q++) key = (key << 8) | (q < ad.size() ? ad[q] : 0);
						if (used[key] + 5 > 48) continue;
						used[key] += 5;
						int &sq = seqs[key]; sq = sq >= 255 ? 1 : sq + 1;
						static const uint8_t targets[] = {0xFD, 0xFE, 0xFF, 0xFC, 0x00};
						uint8_t want = targets[r.below(5)], data = 0;
						for (int d = 0; d < 256; d++) { ref::Msg m; m.addr = ad; m.seq = (uint8_t) sq; m.type = MSG_SYS_PING; m.data = {(uint8_t) d}; if (ref::crc8(m.encode()) == want) { data = (uint8_t) d; break; } }
						J fl0 = J::obj(); fl0.set("op", "flush"); ops.push(fl0);
						J op = J::obj(); op.set("op", "ll"); op.set("fn", "sys_ping"); op.set("node", pc::jnode3(ad)); op.set("a", hex_of(std::vector<uint8_t>{data})); ops.push(op);
						J fl1 = J::obj(); fl1.set("op", "flush"); ops.push(fl1);
						continue;
					}
					std::vector<uint8_t> ad; size_t depth = (size_t) r.below(4);
					for (size_t q = 0; q < depth; q++) ad.push_back((uint8_t) r.range(1, 255));
					if (f->to_interface_only) ad.clear();
					uint32_t key = 0; for (size_t q = 0; q < 3; q++) key = (key << 8) | (q < ad.size() ? ad[q] : 0);
					if (used[key] + pc::resp_info(f->type).size > 48) continue;
					used[key] += pc::resp_info(f->type).size;
					{ int &sq = seqs[key]; sq = sq >= 255 ? 1 : sq + 1; }
					ops.push(pc::ll_op(r, *f, ad));
				}
				J fl = J::obj(); fl.set("op", "flush"); ops.push(fl);
				J lb = J::obj(); lb.set("op", "loopback"); lb.set("gap_us", r.chance(500) ? 0 : (int) r.range(1, 3000));
				if (r.coin()) { lb.set("split_at", (int) r.range(0, 60)); lb.set("split_gap_us", (int) r.range(1000, 40000)); }
				ops.push(lb);
				J tasks = J::arr(); tasks.push(ops); ph.set("tasks", tasks);
			} else {
				J ev = J::arr();
				int npk = overflow ? (int) r.range(129, 190) : (int) r.range(2, thorough ? 30 : 16);
				int t = 0, budget_msgs = 0;
				std::vector<uint8_t> last_good;
				for (int k = 0; k < npk && (overflow || budget_msgs < 100); k++) {
					std::vector<uint8_t> bytes;
					const char *inj = nullptr;
					uint64_t x = r.below(100);
					if (overflow) {
						ref::Msg m = rnd_msg(r); m.data = {(uint8_t) k, (uint8_t) (k >> 8), r.byte()};
						bytes = ref::frame_msgs({m});
						J e = J::obj(); t += (int) r.range(0, 1500); e.set("at_us", t); e.set("raw", hex_of(bytes)); ev.push(e);
						continue;
					}
					if (x < 10) {
						inj = "noise";
						// noise between packets
						size_t n = (size_t) r.range(1, 20);
						for (size_t i = 0; i < n; i++) { uint8_t b = r.byte(); if (b == 0xFE && r.chance(800)) b = 0x7E; bytes.push_back(b); }
					} else {
						std::vector<ref::Msg> ms;
						int nm = (int) r.range(1, r.chance(300) ? 6 : 2);
						size_t tot = 0;
						for (int i = 0; i < nm; i++) { ref::Msg m = rnd_msg(r); tot += m.encode().size(); if (tot > 48) break; ms.push_back(m); }
						if (ms.empty()) ms.push_back(rnd_msg(r));
						budget_msgs += (int) ms.size();
						bytes = ref::frame_msgs(ms);
						if (r.chance(150)) bytes.erase(bytes.begin());   // share the previous packet's end delimiter as start
						if (x < 45 && bytes.size() > 3) {
							// corrupt this packet
							size_t pos = 1 + (size_t) r.below(bytes.size() - 2);
							switch (r.below(6)) {
								case 0: bytes[pos] ^= (uint8_t) (1u << r.below(8)); inj = "bit-flip"; break;
								case 1: bytes.erase(bytes.begin() + (long) pos); inj = "byte-dropped"; break;
								case 2: bytes.insert(bytes.begin() + (long) pos, r.byte()); inj = "byte-inserted"; break;
								case 3: bytes.resize(pos); inj = "truncated"; break;                                          // truncated packet
								case 4: bytes.insert(bytes.begin() + (long) pos, 0xFE); inj = "stray-delimiter"; break;               // stray delimiter inside
								case 5: bytes.insert(bytes.begin(), (size_t) r.range(1, 3), 0xFE); inj = "duplicate-delimiters"; break;    // duplicate delimiters
							}
						} else if (x < 50 && !last_good.empty()) {
							bytes = last_good; inj = "duplicated-packet";   // exact duplicate of an earlier good packet: must be delivered again
						} else last_good = bytes;
					}
					J e = J::obj();
					t += (int) r.range(0, 4000);
					e.set("at_us", t); e.set("raw", hex_of(bytes)); if (inj) e.set("inj", inj);
					if (r.chance(400)) e.set("gap_us", (int) r.range(1, 6000));
					if (r.chance(400) && bytes.size() > 1) { e.set("split_at", (int) r.below(bytes.size())); e.set("split_gap_us", r.chance(150) ? (int) r.range(100000, 400000) : (int) r.range(1000, 30000)); }      // (now and then the line falls silent inside a packet for a tenth of a second and more)
					ev.push(e);
				}
				ph.set("bus", ev);
			}
			J post = J::arr(); post.push("quiesce_noflush"); ph.set("post", post);
			phs.push(ph);
			// reading phase
			J rp = J::obj(); J pre = J::arr();
			for (const char *q : {"read", "read_err", "read_intern"}) { J d = J::obj(); d.set("op", "drain"); d.set("q", q); pre.push(d); }
			rp.set("pre", pre);
			J post2 = J::arr(); post2.push("quiesce_noflush"); rp.set("post", post2);
			phs.push(rp);
		}
		if (nsess == 2 && sess == 0) {
			// the line goes quiet in the middle of a packet: delimiter, some payload bytes (possibly ending in an escape byte), no end
			J ph = J::obj(); J ev = J::arr();
			ref::Msg m = rnd_msg(r); std::vector<uint8_t> bytes = ref::frame_msgs({m});
			bytes.resize((size_t) r.range(2, (long) bytes.size() - 1));
			if (r.chance(300)) bytes.push_back(0xFD);
			J e = J::obj(); e.set("at_us", 0); e.set("raw", hex_of(bytes)); e.set("inj", "truncated");
			ev.push(e); ph.set("bus", ev);
			J post = J::arr(); post.push("quiesce_noflush"); ph.set("post", post);
			phs.push(ph);
		}
		se.set("phases", phs);
		ss.push(se);
		}
		plan.set("sessions", ss);
		plan.set("sched", sched_json(r, tier, 1, true));
		plan.set("loopback", loop);
		return plan;
	}

	size_t ops_seen = 0, good_after_bad = 0, frames_good = 0, frames_bad = 0, frames_unspec = 0, escaped_crc = 0, multi = 0;
	std::vector<std::vector<uint8_t>> got;

	void attach(Engine &) override { err_armed = false; sim::lockset_arm(false); d_from = g_from = sessions_judged = 0; overflow_sessions = 0; ops_seen = 0; good_after_bad = frames_good = frames_bad = frames_unspec = escaped_crc = multi = 0; got.clear(); }

	void after_op(Engine &e, OpRec &o) override {
		const std::string &k = o.op->gets("op");
		if (e.plan.getb("error_class")) { if (k == "read_err" && o.has_bytes && err_armed) got.push_back(o.bytes); return; }
		if (k == "read" && o.has_bytes) got.push_back(o.bytes);
		if ((k == "read_err" || k == "read_intern") && o.has_bytes)
			e.violate("WRONG_QUEUE", k, "debug mode: a message surfaced in the " + k + " queue: " + hex_of(o.bytes));
	}

	size_t d_from = 0, g_from = 0, sessions_judged = 0;
	bool err_armed = false;
	void on_session_start(Engine &e, int, int ret) override { d_from = e.bus.delivered.size(); g_from = got.size(); if (e.plan.getb("error_class")) sim::lockset_arm(ret == 0); }
	void before_stop(Engine &, int) override { sim::lockset_arm(false); }
	void at_quiescence(Engine &e, int s, int p) override {
		// error-class plans: judged from the end of the initial drain on (start-up traffic is not part of the stream under test)
		if (e.plan.getb("error_class") && e.plan["sessions"][(size_t) s]["phases"][(size_t) p].getb("err_begin")) { err_armed = true; d_from = e.bus.delivered.size(); g_from = got.size(); }
	}
	void on_session_stop(Engine &e, int s) override { judge(e, e.plan["sessions"][(size_t) s].getb("overflow")); sessions_judged++; d_from = e.bus.delivered.size(); g_from = got.size(); }
	void at_end(Engine &e) override { if (e.plan.getb("loopback")) check_loopback(e); }

	// one session: the bytes delivered to this session's receiver, decoded from a fresh framing state, against what this session's reads returned
	uint64_t overflow_sessions = 0;
	void judge(Engine &e, bool overflow = false) {
		bool open = false;
		std::vector<uint8_t> delivered(e.bus.delivered.begin() + (long) d_from, e.bus.delivered.end());
		std::vector<std::vector<uint8_t>> got(this->got.begin() + (long) g_from, this->got.end());
		std::vector<ref::Frame> fs = ref::decode_stream(delivered, 255, &open);
		std::vector<Tok> toks;
		bool prev_bad = false;
		for (auto &f : fs) {
			if (f.cls == ref::GOOD) {
				frames_good++;
				if (prev_bad) good_after_bad++;
				if (f.crc_escaped) escaped_crc++;
				if (f.msgs.size() > 1) multi++;
				for (auto &m : f.msgs) {
					if (m.type == MSG_STALL) continue;
					if (e.plan.getb("error_class") && m.type != MSG_SYS_ERROR && m.type != MSG_NODE_NA && m.type != MSG_FEATURE_NA && m.type != MSG_LC_NA) continue;
					toks.push_back(Tok{false, m.raw});
				}
				prev_bad = false;
			} else if (f.cls == ref::BAD_CRC) { frames_bad++; prev_bad = true; }
			else { frames_unspec++; prev_bad = true; if (toks.empty() || !toks.back().wild) toks.push_back(Tok{true, {}}); }
		}
		// a burst nobody read: the bounded queue (128, oldest dropped) keeps the newest 128 in stream order
		if (overflow) { overflow_sessions++; if (toks.size() > 128) toks.erase(toks.begin(), toks.end() - 128); }
		// match got against toks (wildcards absorb anything an UNSPECIFIED frame may have produced)
		size_t n = toks.size(), m = got.size();
		std::vector<std::vector<char>> ok(n + 1, std::vector<char>(m + 1, 0));
		ok[n][m] = 1;
		for (size_t i = n; i-- > 0;) {
			for (size_t j = m + 1; j-- > 0;) {
				if (toks[i].wild) ok[i][j] = ok[i + 1][j] || (j < m && ok[i][j + 1]);
				else ok[i][j] = (j < m && got[j] == toks[i].raw && ok[i + 1][j + 1]);
			}
		}
		for (size_t j = 0; j <= m && n == 0; j++) ok[0][j] = (j == m);
		if (!ok[0][0]) {
			// first point of divergence for the report (walk mandatory prefix)
			size_t i = 0, j = 0;
			while (i < n && j < m && !toks[i].wild && got[j] == toks[i].raw) { i++; j++; }
			std::string d = "after " + std::to_string(j) + " matching messages: ";
			if (i < n && !toks[i].wild) d += "expected message " + hex_of(toks[i].raw); else d += "no further message expected";
			if (j < m) d += ", library delivered " + hex_of(got[j]); else d += ", library delivered nothing more";
			d += " (stream had " + std::to_string(frames_good) + " good, " + std::to_string(frames_bad) + " bad-CRC, " + std::to_string(frames_unspec) + " unspecified frames)";
			std::string cls = (j >= m) ? "GOOD_MESSAGE_DROPPED" : (i >= n || toks[i].wild) ? "UNEXPECTED_MESSAGE" : "MESSAGE_MISMATCH";
			e.violate(cls, e.plan.getb("loopback") ? "loopback of own downlink" : "uplink stream", d);
		}
	}

	// loop-back clause: "whatever the library's own sender emits, its receiver decodes to the identical message sequence" - judged against
	// the calls that were made (not against my decoding of the downlink, which would excuse a malformed downlink as 'unspecified')
	void check_loopback(Engine &e) {
		std::vector<ref::Msg> want;
		for (auto &o : e.oplog) if (o.op->gets("op") == "ll") want.push_back(pc::ll_expected(*o.op));
		size_t n = std::min(want.size(), got.size());
		for (size_t i = 0; i <= n; i++) {
			std::string have = i < got.size() ? hex_of(got[i]) : std::string("nothing more");
			if (i == n) {
				if (want.size() == got.size()) return;
				if (want.size() > got.size()) e.violate("GOOD_MESSAGE_DROPPED", "loopback of own downlink", "the library sent " + std::to_string(want.size()) + " messages and its own receiver, fed with exactly these bytes, delivered only " + std::to_string(got.size()) + "; first missing: " + pc::msg_key(want[i]));
				e.violate("UNEXPECTED_MESSAGE", "loopback of own downlink", "receiver delivered more messages than were sent, first surplus: " + have);
			}
			const std::vector<uint8_t> &g = got[i];
			ref::Msg m; size_t k = 1;
			while (k < g.size() && g[k] != 0 && m.addr.size() < 4) m.addr.push_back(g[k++]);
			if (k + 2 < g.size() + 0 && g[k] == 0) { m.seq = g[k + 1]; m.type = g[k + 2]; m.data.assign(g.begin() + (long) k + 3, g.end()); }
			if (pc::msg_key(m) != pc::msg_key(want[i]))
				e.violate("MESSAGE_MISMATCH", "loopback of own downlink", "message #" + std::to_string(i) + " sent as " + pc::msg_key(want[i]) + " came back from the library's own receiver as " + have);
		}
	}

	void coverage(Engine &e, J &f) override {
		f.set("nontrivial", good_after_bad > 0 || (e.plan.getb("loopback") && frames_good > 0));
		f.set("shape", (long long) ((pc::shape_hash(e.plan) ^ fnv1a_u64(FNV_INIT, frames_good * 131 + frames_bad * 17 + frames_unspec)) >> 1));
		J p = J::obj();
		p.set("frames_good", (long long) frames_good); p.set("frames_bad_crc", (long long) frames_bad); p.set("frames_unspecified", (long long) frames_unspec);
		p.set("good_after_corrupted", (long long) good_after_bad); p.set("crc_escaped", (long long) escaped_crc); p.set("multi_message_frames", (long long) multi);
		p.set("messages_read", (long long) got.size()); p.set("loopback_runs", e.plan.getb("loopback") ? 1 : 0); p.set("sessions_after_a_truncated_packet", e.plan["sessions"].size() > 1 ? 1 : 0); p.set("error_class_runs_normal_mode", e.plan.getb("error_class") ? 1 : 0); p.set("unread_bursts_beyond_the_queue_bound", (long long) overflow_sessions);
		p.set("loopback_downlink_packets_with_escaped_crc", (long long) e.bus.dec.crc_escapes);
		f.set("probes", p);
	}
};

}  // namespace

Prop *make_c02() { return new C02(); }

// C19 — Secure-ACK: each occupancy report of a SecAck board is mirrored exactly once, without waiting for a flush.
#include "common.h"
#include "cfggen.h"
#include "apiops.h"

namespace {

struct Expect { uint64_t frame = 0; bool judged = false; uint8_t rtype = 0; std::string from; uint32_t node; std::string key; uint64_t report_processed_step; bool immediate; long wire_idx = -1; };

struct C19 : Prop {
	const char *id() const override { return "C19"; }
	std::string rule() const override {
		return "plan = generated worlds in which feature 0x03 is absent / 0 / >0 per board (auto-flush off); OCC, FREE, MULTIPLE (mnum and size multiples of 8, sizes 8-128) and "
		       "POSITION reports from several boards interleaved with 0-3 sender tasks; in the impeded variant the reporting board (or an ancestor) is stalled while it reports "
		       "and released in a heal phase. Oracle: for a SecAck board every report yields exactly one mirror message to that board with the same detector number / "
		       "payload, in report order; when neither the board nor an ancestor is stalled the mirror is already on the wire when the report is known to be processed - "
		       "without any flush by the harness and with auto-flush off; boards without the feature (and unknown nodes) never receive a mirror type. "
		       "non-trivial = >=2 SecAck boards or >=1 SecAck and >=1 plain board reported, incl. >=1 MULTIPLE; distinct = (shape, trace).";
	}
	J generate(Rng &r, const std::string &tier, uint64_t) override {
		bool thorough = tier == "thorough";
		J plan = J::obj();
		cfg::GenOpts o; o.max_boards = thorough ? 4 : 3; o.max_trains = 1; o.allow_absent = false; o.want_initial = r.coin();
		cfg::World w = cfg::gen_world(r, o);
		// make the Secure-ACK feature frequent
		for (auto &b : w.boards) {
			bool has = false; for (auto &f : b.features) if (f.first == 0x03) has = true;
			if (!has && r.chance(600)) b.features.push_back({0x03, (uint8_t) (r.chance(250) ? 0 : r.range(1, 200))});
		}
		cfg::install(plan, w, r);
		api::Ids ids = api::collect(w);
		bool impeded = r.chance(300);
		plan.set("impeded", impeded);
		// second kind of impediment: the reporting SecAck board does not answer requests, its response budget is used up and a request is held
		// back; mirrors queue behind it and must be released when the unanswered requests expire (2 s) and the board sends anything at all
		bool budget_impeded = !impeded && r.chance(200);
		const cfg::Board *bb = nullptr;
		if (budget_impeded) { std::vector<const cfg::Board *> sa; for (auto &b : w.boards) if (b.present && b.secack()) sa.push_back(&b); if (sa.empty()) budget_impeded = false; else bb = sa[r.below(sa.size())]; }
		if (budget_impeded) { J bus = plan["bus"]; J da = J::arr(); da.push((int) MSG_SYS_SW_VERSION); bus.set("drop_answers", da); plan.set("bus", bus); }
		plan.set("budget_impeded", budget_impeded);
		// three runs in ten: some writes to the line take 2-20 ms (the receiver is inside the write callback with a mirror while others want to send)
		if (r.chance(300)) { J bus = plan["bus"]; J sw = J::arr(); for (int i = 0, n = (int) r.range(2, 8); i < n; i++) { J e = J::arr(); e.push((int) r.range(10, 90)); e.push((int) r.range(2000, 20000)); sw.push(e); } bus.set("slow_writes", sw); plan.set("bus", bus); }
		// one run in six: one answer of the start-up dialogue is duplicated on the bus (a stray feature confirmation must not change which boards are Secure-ACK boards)
		if (r.chance(170)) { J bus = plan["bus"]; J td = J::arr(); J e = J::arr(); e.push((int) MSG_FEATURE); e.push((int) r.range(1, 6)); e.push((int) r.below(2)); td.push(e); bus.set("type_dup_once", td); plan.set("bus", bus); }
		J se = cfg::normal_session(0, 0);
		J phs = J::arr();
		int nph = (int) r.range(1, thorough ? 3 : 2), maxt = 1;
		// let the start-up traffic settle first (initial values may still be deferred behind the response budget when the start returns)
		{ J ph = J::obj(); J post = J::arr(); post.push("quiesce"); ph.set("post", post); phs.push(ph); }
		for (int p = 0; p < nph; p++) {
			J ph = J::obj(); J ev = J::arr();
			int t = 0;
			std::vector<const cfg::Board *> bs; for (auto &b : w.boards) if (b.present) bs.push_back(&b);
			if (impeded) {
				const cfg::Board *sb = bs[r.below(bs.size())];
				J e = J::obj(); e.set("at_us", 0); e.set("node", pc::jaddr(sb->addr)); e.set("type", (int) MSG_STALL); e.set("data", pc::jarr({1})); ev.push(e);
				t = 2000;
			}
			if (budget_impeded && p == 0) {
				J pre = J::arr();
				for (int q = 0, nq = (int) r.range(7, 9); q < nq; q++) pre.push(pc::ll_op(r, *cat::find("sys_get_sw_version"), bb->addr));
				{ J f = J::obj(); f.set("op", "flush"); pre.push(f); }
				ph.set("pre", pre);
			}
			int n = (int) r.range(2, thorough ? 30 : 16);
			for (int i = 0; i < n; i++) {
				t += (int) r.range(0, 6000);
				const cfg::Board *b = (budget_impeded && r.chance(600)) ? bb : bs[r.below(bs.size())];
				J e = J::obj(); e.set("at_us", t); e.set("node", pc::jaddr(b->addr));
				uint64_t x = r.below(100);
				int det = (!b->segs.empty() && r.chance(700)) ? b->segs[r.below(b->segs.size())].addr : (int) r.byte();
				if (x < 30) { e.set("type", (int) MSG_BM_OCC); e.set("data", pc::jarr({det})); }
				else if (x < 55) { e.set("type", (int) MSG_BM_FREE); e.set("data", pc::jarr({det})); }
				else if (x < 80) {
					int sz = (int) r.range(1, 16) * 8; J d = J::arr();
					// window position: anywhere, at the start, or ending exactly at the last detector (mnum + size = 256)
					int mn = r.chance(250) ? 256 - sz : r.chance(150) ? 0 : (int) (r.below((uint64_t) ((256 - sz) / 8 + 1)) * 8);
					d.push(mn); d.push(sz); for (int q = 0; q < sz / 8; q++) d.push((int) cat::edge_byte(r));
					e.set("type", (int) MSG_BM_MULTIPLE); e.set("data", d);
				} else { e.set("type", (int) MSG_BM_POSITION); e.set("data", pc::jarr({(int) r.byte(), (int) r.byte(), (int) r.byte(), (int) r.byte(), (int) r.byte()})); }
				e.set("tag", 700);
				ev.push(e);
			}
			ph.set("bus", ev);
			int nt = (int) r.below(4); maxt = std::max(maxt, nt);
			J tasks = J::arr();
			// an application thread that consumes the message queue as fast as it fills (every returned message is freed at once)
			if (r.chance(350)) {
				J ops = J::arr();
				for (int i = 0, no = (int) r.range(4, 20); i < no; i++) {
					J dr = J::obj(); dr.set("op", "drain"); dr.set("q", "read"); ops.push(dr);
					J sl = J::obj(); sl.set("op", "sleep"); sl.set("us", (int) r.range(1, 3) * 5000); ops.push(sl);
				}
				tasks.push(ops); maxt = std::max(maxt, nt + 1);
			}
			for (int q = 0; q < nt; q++) {
				J ops = J::arr();
				for (int i = 0, no = (int) r.range(1, 10); i < no; i++) {
					uint64_t x = r.below(100);
					if (x < 40) ops.push(api::get_op(r, ids, w));
					else if (x < 55) { J s = J::obj(); s.set("op", "sleep"); s.set("us", (int) r.range(100, 20000)); ops.push(s); }
					else if (x < 75) { J rd = J::obj(); rd.set("op", "read"); ops.push(rd); }
					else {
						// senders use messages without response budget and never a mirror type themselves; no flush (that is the point)
						static const char *fns[] = {"sys_clock", "node_changed_ack", "lc_port_query_all", "lc_configx_get_all", "cs_allocate"};
						// (one in five: the application asks a board for its occupancy with an action id of its own - the answer is a report like any other)
						if (!impeded && !budget_impeded && r.chance(200)) ops.push(pc::ll_op(r, *cat::find("bm_get_range_with_action_id"), bs[r.below(bs.size())]->addr));
						else ops.push(pc::ll_op(r, *cat::find(fns[r.below(5)]), bs[r.below(bs.size())]->addr));
					}
				}
				tasks.push(ops);
			}
			ph.set("tasks", tasks);
			J post = J::arr(); post.push("quiesce_noflush"); ph.set("post", post);
			phs.push(ph);
		}
		// address swap (one run in six): a board leaves, another configured board with a different Secure-ACK setting logs in at the address it left,
		// then reports come from that address: mirrors follow the board that is there now
		if (!impeded && !budget_impeded && r.chance(170)) {
			std::vector<const cfg::Board *> leaf; for (auto &b : w.boards) if (b.present && b.addr.size() == 1 && !b.is_iface()) leaf.push_back(&b);
			const cfg::Board *bx = nullptr, *by = nullptr;
			for (auto *a : leaf) for (auto *b2 : leaf) if (a != b2 && a->secack() != b2->secack() && !bx && r.coin()) { bx = a; by = b2; }
			if (bx && by) {
				J ph = J::obj(); J ev = J::arr(); int t = 0;
				auto report = [&](const std::vector<uint8_t> &from, int k) {
					J e = J::obj(); e.set("at_us", t); e.set("node", pc::jaddr(from)); e.set("tag", 700);
					switch (k % 4) { case 0: e.set("type", (int) MSG_BM_OCC); e.set("data", pc::jarr({(int) r.byte()})); break; case 1: e.set("type", (int) MSG_BM_FREE); e.set("data", pc::jarr({(int) r.byte()})); break;
					                 case 2: e.set("type", (int) MSG_BM_MULTIPLE); e.set("data", pc::jarr({8, 8, (int) r.byte()})); break; default: e.set("type", (int) MSG_BM_POSITION); e.set("data", pc::jarr({(int) r.byte(), (int) r.byte(), (int) r.byte(), 1, 2})); }
					ev.push(e); t += 5000; };
				for (int k = 0, n = (int) r.range(1, 3); k < n; k++) report(bx->addr, (int) r.below(4));     // the board that will leave has just been looked up
				{ J e = J::obj(); e.set("at_us", t); e.set("node", pc::jaddr(bx->addr)); e.set("topo", "lost"); ev.push(e); t += 5000; }
				{ J e = J::obj(); e.set("at_us", t); e.set("node", pc::jaddr(by->addr)); e.set("topo", "lost"); ev.push(e); t += 5000; }
				{ J e = J::obj(); e.set("at_us", t); e.set("node", pc::jaddr(by->addr)); e.set("topo", "new"); e.set("as", pc::jaddr(bx->addr)); ev.push(e); t += 10000; }
				for (int k = 0, n = (int) r.range(2, 6); k < n; k++) report(bx->addr, k + (int) r.below(4));
				ph.set("bus", ev); ph.set("address_swap", true);
				J post = J::arr(); post.push("quiesce_noflush"); ph.set("post", post);
				phs.push(ph);
			}
		}
		{ J ph = J::obj(); J pre = J::arr(); J h = J::obj(); h.set("op", "heal"); pre.push(h); ph.set("pre", pre); ph.set("heal", true); J post = J::arr(); post.push("quiesce"); ph.set("post", post); phs.push(ph); }
		se.set("phases", phs);
		J ss = J::arr(); ss.push(se); plan.set("sessions", ss);
		J sc = sched_json(r, tier, maxt + 1, true); cfg::starve_after_startup(sc, r);
		plan.set("sched", sc);
		return plan;
	}

	cfg::World world;
	std::vector<Expect> exp;
	std::map<uint32_t, bool> secack;       // node key -> board has SecAck
	std::map<uint32_t, std::string> at_addr; uint64_t swaps_seen = 0;
	std::set<uint32_t> stalled_now;         // nodes that reported STALL=1 (delivery started) and not yet STALL=0 processed
	size_t wire_seen = 0;
	uint64_t immediate_checked = 0, deferred = 0, plain_reports = 0, multiple_reports = 0;
	bool armed = false;

	static uint32_t keyof(const std::vector<uint8_t> &a) { uint32_t k = 0; for (size_t i = 0; i < 3; i++) k = (k << 8) | (i < a.size() ? a[i] : 0); return k; }
	bool under_stall(uint32_t node) {
		for (uint32_t s : stalled_now) {
			size_t d = (s >> 16) ? ((s >> 8) & 0xFF ? ((s & 0xFF) ? 3 : 2) : 1) : 0;
			uint32_t mask = d == 0 ? 0 : d == 1 ? 0xFF0000u : d == 2 ? 0xFFFF00u : 0xFFFFFFu;
			if ((node & mask) == (s & mask)) return true;
		}
		return false;
	}
	// a request of the application to this node that has not reached the wire yet (held back by the response budget): mirrors queue behind it
	bool held_request_for(Engine &e, uint32_t node) {
		std::map<std::string, int> submitted, wired;
		for (auto &st : e.starts) { if (st.op->gets("op") != "ll") continue; ref::Msg m = pc::ll_expected(*st.op); if (m.addr_key() == node) submitted[pc::msg_key(m)]++; }
		if (submitted.empty()) return false;
		for (auto &w : e.bus.wire) if (w.msg.addr_key() == node) wired[pc::msg_key(w.msg)]++;
		for (auto &kv : submitted) if (wired[kv.first] < kv.second) return true;
		return false;
	}
	static bool is_mirror(uint8_t t) { return t == MSG_BM_MIRROR_OCC || t == MSG_BM_MIRROR_FREE || t == MSG_BM_MIRROR_MULTIPLE || t == MSG_BM_MIRROR_POSITION; }

	void attach(Engine &e) override {
		world = cfg::from_json(e.plan["world"]);
		exp.clear(); secack.clear(); stalled_now.clear(); wire_seen = 0; immediate_checked = deferred = plain_reports = multiple_reports = 0; armed = false;
		at_addr.clear(); swaps_seen = 0;
		for (auto &b : world.boards) if (b.present) { secack[keyof(b.addr)] = b.secack(); at_addr[keyof(b.addr)] = b.id; }
		// a mirror can exist as soon as the report's last byte has been handed to the receiver: the expectation is registered then;
		// "already on the wire" is judged when the report is known to be processed (the receiver polls the line again)
		e.bus.on_delivered = [this](bus::UpFrame &f) {
			for (auto &m : f.msgs) if (m.type == MSG_STALL && !m.data.empty() && m.data[0]) stalled_now.insert(m.addr_key());
			// which board is at which address follows the node notices (frames are processed in the order they are delivered)
			if (!f.corrupted) for (auto &m : f.msgs) if ((m.type == MSG_NODE_NEW || m.type == MSG_NODE_LOST) && m.data.size() >= 9) {
				for (auto &b : world.boards) if (!memcmp(b.uid, &m.data[2], 7)) {
					for (auto it = at_addr.begin(); it != at_addr.end();) { if (it->second == b.id) { secack.erase(it->first); it = at_addr.erase(it); } else ++it; }
					if (m.type == MSG_NODE_NEW) { std::vector<uint8_t> na = m.addr; na.push_back(m.data[1]); at_addr[keyof(na)] = b.id; secack[keyof(na)] = b.secack(); swaps_seen++; }
				}
			}
			if (!armed || f.corrupted) return;
			for (auto &m : f.msgs) {
				uint32_t nk = m.addr_key();
				uint8_t mt = 0; std::vector<uint8_t> d;
				if (m.type == MSG_BM_OCC && m.data.size() >= 1) { mt = MSG_BM_MIRROR_OCC; d = {m.data[0]}; }
				else if (m.type == MSG_BM_FREE && m.data.size() >= 1) { mt = MSG_BM_MIRROR_FREE; d = {m.data[0]}; }
				else if (m.type == MSG_BM_MULTIPLE && m.data.size() >= 2) { mt = MSG_BM_MIRROR_MULTIPLE; d.assign(m.data.begin(), m.data.begin() + 2 + m.data[1] / 8); multiple_reports++; }
				else if (m.type == MSG_BM_POSITION && m.data.size() >= 3) { mt = MSG_BM_MIRROR_POSITION; d = {m.data[0], m.data[1], m.data[2]}; }
				else continue;
				auto it = secack.find(nk);
				if (it == secack.end() || !it->second) { plain_reports++; continue; }
				ref::Msg mm; mm.addr = m.addr; mm.type = mt; mm.data = d;
				Expect x; x.node = nk; x.key = pc::msg_key(mm); x.frame = f.id; x.rtype = m.type; x.from = m.addr_str();
				exp.push_back(x);
			}
		};
		e.bus.on_processed = [this, &e](bus::UpFrame &f) {
			if (!armed || f.corrupted) return;
			for (auto &m : f.msgs) if (m.type == MSG_STALL && !m.data.empty() && !m.data[0]) stalled_now.erase(m.addr_key());
			scan_wire(e);
			for (size_t i = 0; i < exp.size(); i++) {
				Expect &x = exp[i];
				if (x.frame != f.id || x.judged) continue;
				x.judged = true; x.report_processed_step = f.processed_step;
				x.immediate = !under_stall(x.node) && !held_request_for(e, x.node);
				// an earlier mirror of this node still waiting -> this one queues behind it
				for (size_t j = 0; j < i; j++) if (exp[j].node == x.node && exp[j].wire_idx < 0) x.immediate = false;
				if (x.immediate) {
					immediate_checked++;
					if (x.wire_idx < 0)
						e.violate("MIRROR_NOT_SENT_AT_ONCE", "mirror after report", "report type 0x" + hex_of(&x.rtype, 1) + " from SecAck board " + x.from + " is known to be processed (step " + std::to_string(f.processed_step) + ") but its mirror " + x.key + " is not on the wire (no flush by the application, auto-flush off)");
				} else deferred++;
			}
		};
	}
	void on_session_start(Engine &e, int, int) override { armed = true; wire_seen = e.bus.wire.size(); }
	void before_stop(Engine &, int) override { armed = false; }

	void scan_wire(Engine &e) {
		for (; wire_seen < e.bus.wire.size(); wire_seen++) {
			const ref::Msg &m = e.bus.wire[wire_seen].msg;
			if (!is_mirror(m.type)) continue;
			uint32_t nk = m.addr_key();
			std::string k = pc::msg_key(m);
			auto it = secack.find(nk);
			if (it == secack.end() || !it->second) e.violate("MIRROR_TO_PLAIN_BOARD", "node " + m.addr_str(), "mirror message " + k + " sent to a node whose configuration does not enable Secure-ACK");
			// must be the oldest outstanding expected mirror of that node
			bool matched = false;
			for (auto &x : exp) {
				if (x.node != nk || x.wire_idx >= 0) continue;
				if (x.key != k) e.violate("MIRROR_WRONG", "node " + m.addr_str(), "mirror on the wire is " + k + " but the oldest unanswered report of that board requires " + x.key);
				x.wire_idx = (long) wire_seen; matched = true; break;
			}
			if (!matched) e.violate("MIRROR_DUPLICATED", "node " + m.addr_str(), "mirror message " + k + " on the wire has no unanswered report (sent twice or never reported)");
		}
	}
	void after_op(Engine &e, OpRec &) override { if (armed) scan_wire(e); }
	void at_quiescence(Engine &e, int s, int p) override {
		scan_wire(e);
		if (e.plan["sessions"][(size_t) s]["phases"][(size_t) p].getb("heal"))
			for (auto &x : exp) if (x.wire_idx < 0) e.violate("MIRROR_MISSING", "end of run", "mirror " + x.key + " was never sent although every stall was cleared");
	}
	void coverage(Engine &e, J &f) override {
		std::set<uint32_t> sa; for (auto &x : exp) sa.insert(x.node);
		f.set("nontrivial", (sa.size() >= 2 || (sa.size() >= 1 && plain_reports > 0)) && multiple_reports > 0);
		f.set("shape", (long long) (pc::shape_hash(e.plan) >> 1));
		J p = J::obj(); p.set("mirrors_expected", (long long) exp.size()); p.set("immediate_checked", (long long) immediate_checked); p.set("deferred_by_stall", (long long) deferred);
		p.set("reports_from_plain_boards", (long long) plain_reports); p.set("multiple_reports", (long long) multiple_reports); { long long sw = 0; for (size_t q = 0; q < e.plan["sessions"][0]["phases"].size(); q++) if (e.plan["sessions"][0]["phases"][q].getb("address_swap")) sw++; p.set("address_swap_phases", sw); }
		f.set("probes", p);
	}
};

}  // namespace

Prop *make_c19() { return new C19(); }

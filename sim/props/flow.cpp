// C03 (response budget, deferred FIFO, never stranded) and C04 (stall) share one reference model of
// node flow control driven by the same events the library sees.
#include "common.h"

namespace {

struct Sub {                    // one submitted message (an ll op)
	size_t start_idx;           // index into Engine::starts
	ref::Msg exp;
	std::string key;
	uint32_t node;
	int size;                   // worst-case response size (reference table)
	long wire_idx = -1;         // index into bus.wire once transmitted
	bool def_deferred = false;  // even the lenient-low accounting had no room when the call began: the library must have held it back
	int64_t admit_low_s = -1;   // earliest second at which the library can have admitted it (lenient-low accounting had room again)
	bool due = false;           // liveness: model says it must have been handed to the transmit buffer
	std::string due_why;
};

struct Out { size_t sub; int size; uint8_t type; int64_t t_inv_s, t_wire_s; uint64_t wire_step = 0; };

struct StallWin { uint32_t node; size_t depth; uint64_t t1_processed = 0, t1_first = 0, t0_first = 0, t0_processed = 0; bool cleared = false; int64_t t0_first_s = -1; };

static size_t depth_of(uint32_t key) { return (key >> 16) ? ((key >> 8) & 0xFF ? ((key & 0xFF) ? 3 : 2) : 1) : 0; }
static bool in_subtree(uint32_t node, uint32_t root) {
	size_t d = depth_of(root);
	if (d == 0) return true;
	uint32_t mask = d == 1 ? 0xFF0000u : d == 2 ? 0xFFFF00u : 0xFFFFFFu;
	return (node & mask) == (root & mask);
}

// what the library itself reports as the occupied part of a node's response budget (last "Used output buffer ..." log line per node)
static std::map<uint32_t, int> g_lib_used;
static void flow_syslog_hook(int, const char *msg) {
	const char *p = strstr(msg, "Used output buffer for 0x");
	if (!p) return;
	unsigned a, b, c, d; int n;
	if (sscanf(p, "Used output buffer for 0x%x 0x%x 0x%x 0x%x is %d bytes", &a, &b, &c, &d, &n) == 5) g_lib_used[(a << 16) | (b << 8) | c] = n;
}

struct Flow : Prop {
	bool is_c04;
	explicit Flow(bool c04) : is_c04(c04) {}
	const char *id() const override { return is_c04 ? "C04" : "C03"; }
	std::string rule() const override {
		if (is_c04)
			return "plan (debug mode keeps flow control active) = node trees up to 3 levels; MSG_STALL 1/0 from random nodes (nested ancestor/descendant in either "
			       "order, repeated notices, unstall without stall) interleaved with 1-4 sender tasks addressing nodes inside and outside the stalled subtrees and with "
			       "ordinary answers; heal phase clears every stall. Oracle: no message whose send call was invoked after STALL=1 was known processed reaches the wire "
			       "before the matching STALL=0 starts to be delivered; unaffected nodes are served; after all stalls are cleared every message is on the wire exactly "
			       "once in per-node submission order. non-trivial = >=1 message held by a stall of a strict ancestor and later released; distinct = (shape, trace).";
		return "plan = 1-4 sender tasks issuing requests of every table-defined response size (5..40 bytes) to 1-5 nodes, bus answering with lose / dup / alt / "
		       "per-node delay (0-3 s) faults chosen by answer ordinal, unrelated spontaneous messages, clock advances across the 2 s expiry, senders racing the "
		       "receiver; heal phase (3 s, spontaneous message from every node) at the end. Oracle: per-node model of outstanding response budget (lenient-low for the "
		       "<=48 safety check at every wire emission, lenient-high FIFO model for 'never stranded' evaluated after each processed uplink message), per-node FIFO vs "
		       "real-time order of calls, exactly-once at the end. non-trivial = >=1 message deferred and >=1 expiry or alt answer; distinct = (shape, trace).";
	}

	J generate(Rng &r, const std::string &tier, uint64_t) override {
		bool thorough = tier == "thorough";
		J plan = J::obj();
		auto tree = pc::gen_tree(r, (int) r.range(1, is_c04 ? 6 : 4));
		J bus = J::obj(); bus.set("nodes", pc::tree_json(tree)); bus.set("resp_delay_us", (int) r.range(100, 5000));
		bool faulty = !is_c04 && r.chance(650);
		J af = J::arr();
		if (faulty) {
			int n = (int) r.range(1, 8);
			std::set<int> used;
			for (int i = 0; i < n; i++) {
				int ord = (int) r.range(1, 60); if (used.count(ord)) continue; used.insert(ord);
				bus::Fault f; uint64_t x = r.below(100);
				if (x < 35) f.kind = "lose";
				else if (x < 55) { f.kind = "dup"; f.a = (int64_t) r.below(2); }
				else if (x < 75) f.kind = "alt";
				else { f.kind = "delay"; f.a = r.chance(400) ? r.range(1900, 3000) : r.range(1, 800); }
				J e = J::arr(); e.push(ord); e.push(bus::fault_json(f)); af.push(e);
			}
		}
		bus.set("answer_faults", af);
		plan.set("bus", bus);
		plan.set("faulty", faulty);
		J se = pc::debug_session(r.chance(600) ? 0 : (int) r.range(1, 40));
		J phs = J::arr();
		std::vector<size_t> requests, cheap;
		for (size_t i = 0; i < cat::table_n; i++) { if (cat::table[i].to_interface_only) continue; (pc::resp_info(cat::table[i].type).size > 0 ? requests : cheap).push_back(i); }
		int nph = (int) r.range(1, thorough ? 4 : 3), maxt = 1;
		uint8_t uniq = 0;
		std::set<std::string> seen_keys;
		bool slow_answers = false;
		for (int p = 0; p < nph; p++) {
			J ph = J::obj();
			if ((is_c04 && r.chance(200)) || (!is_c04 && !faulty && r.chance(60))) {
				// focused stall: node S (the addressee N itself or an ancestor of it) stalls; one task then submits to N either more requests than one
				// response budget holds, or more messages than any bounded queue would keep (130-170); S clears the stall after 0.05-4.5 s and N
				// sends a spontaneous report right behind the notice (before any answer: answers are slow in such runs)
				const std::vector<uint8_t> &n_addr = tree[r.below(tree.size())].addr;
				std::vector<uint8_t> s_addr(n_addr.begin(), n_addr.begin() + (long) r.below(n_addr.size() + 1));
				bool flood = r.chance(400);
				int t_clear = 5000 + (r.chance(flood ? 300 : 750) ? (int) r.range(2200000, 4500000) : (int) r.range(50000, 500000));
				J ev = J::arr();
				{ J e = J::obj(); e.set("at_us", 5000); e.set("node", pc::jaddr(s_addr)); e.set("type", (int) MSG_STALL); e.set("data", pc::jarr({1})); e.set("tag", 10); ev.push(e); }
				{ J e = J::obj(); e.set("at_us", t_clear); e.set("node", pc::jaddr(s_addr)); e.set("type", (int) MSG_STALL); e.set("data", pc::jarr({0})); e.set("tag", 11); ev.push(e); }
				{ J e = J::obj(); e.set("at_us", t_clear + (int) r.below(3) * 2500); e.set("node", pc::jaddr(n_addr)); e.set("type", (int) MSG_BM_OCC); e.set("data", pc::jarr({(int) r.below(8)})); ev.push(e); }
				ph.set("bus", ev);
				J ops = J::arr();
				{ J sl = J::obj(); sl.set("op", "sleep"); sl.set("us", 30000); ops.push(sl); }
				int want = flood ? (int) r.range(130, 170) : (int) r.range(10, 14);
				for (int i = 0; i < want; i++) {
					J op; bool fresh = false;
					for (int tries = 0; tries < 40 && !fresh; tries++) {
						auto &v = flood ? cheap : requests;
						const cat::LL *f = &cat::table[v[r.below(v.size())]];
						op = pc::ll_op(r, *f, n_addr);
						if (std::string(f->name) == "sys_ping") { char h[4]; snprintf(h, sizeof h, "%02x", uniq++); op.set("a", h); }
						fresh = seen_keys.insert(pc::msg_key(pc::ll_expected(op))).second;
					}
					if (fresh) ops.push(op);
				}
				J tasks = J::arr(); tasks.push(ops); ph.set("tasks", tasks);
				ph.set(flood ? "stall_flood" : "stall_overbudget", true);
				if (!flood) slow_answers = true;
				J post = J::arr(); post.push("quiesce"); ph.set("post", post);
				phs.push(ph);
				continue;
			}
			int nt = (int) r.range(1, 4); maxt = std::max(maxt, nt);
			J tasks = J::arr();
			const std::vector<uint8_t> &hot = tree[r.below(tree.size())].addr;
			for (int t = 0; t < nt; t++) {
				J ops = J::arr();
				int no = (int) r.range(2, thorough ? 24 : 14);
				for (int i = 0; i < no; i++) {
					uint64_t x = r.below(100);
					if (x < 6) { J f = J::obj(); f.set("op", "flush"); ops.push(f); continue; }
					if (x < 14) { J f = J::obj(); f.set("op", "sleep"); f.set("us", r.chance(300) && !is_c04 ? (int) r.range(900000, 2600000) : (is_c04 && r.chance(200)) ? (int) r.range(2050000, 3200000) : (int) r.range(100, 40000)); ops.push(f); continue; }
					const std::vector<uint8_t> &ad = r.chance(600) ? hot : tree[r.below(tree.size())].addr;
					const cat::LL *f = &cat::table[(r.chance(is_c04 ? 500 : 850) ? requests : cheap)[0]];
					{ auto &v = r.chance(is_c04 ? 500 : 850) ? requests : cheap; f = &cat::table[v[r.below(v.size())]]; }
					// every submitted message is unique (node, type, data), so that wire messages can be attributed to calls exactly
					J op; bool fresh = false;
					for (int tries = 0; tries < 20 && !fresh; tries++) {
						op = pc::ll_op(r, *f, ad);
						if (std::string(f->name) == "sys_ping") { char h[4]; snprintf(h, sizeof h, "%02x", uniq++); op.set("a", h); }
						fresh = seen_keys.insert(pc::msg_key(pc::ll_expected(op))).second;
					}
					if (fresh) ops.push(op);
				}
				tasks.push(ops);
			}
			ph.set("tasks", tasks);
			J ev = J::arr();
			std::vector<std::pair<int, J>> evs;
			int span = 60000;
			// unrelated spontaneous traffic
			for (int i = 0, n = (int) r.below(4); i < n; i++) {
				J e = J::obj(); e.set("node", pc::jaddr(tree[r.below(tree.size())].addr));
				static const uint8_t sp[] = {MSG_BM_OCC, MSG_BM_FREE, MSG_SYS_PONG, MSG_BOOST_STAT, MSG_LC_STAT, MSG_ACCESSORY_STATE};
				uint8_t ty = sp[r.below(6)]; e.set("type", (int) ty);
				e.set("data", ty == MSG_LC_STAT ? pc::jarr({1, 0, 1}) : ty == MSG_ACCESSORY_STATE ? pc::jarr({1, 0, 2, 0, 0}) : pc::jarr({(int) r.below(8)}));
				evs.push_back({(int) r.range(0, span), e});
			}
			if (is_c04 || r.chance(120)) {
				int ns = (int) r.range(1, 5);
				for (int i = 0; i < ns; i++) {
					const std::vector<uint8_t> &sn = tree[r.below(tree.size())].addr;
					int t_on = (int) r.range(0, span);
					J e = J::obj(); e.set("node", pc::jaddr(sn)); e.set("type", (int) MSG_STALL); e.set("data", pc::jarr({1})); e.set("tag", 10);
					if (!r.chance(100)) evs.push_back({t_on, e});     // (sometimes: unstall without stall)
					if (r.chance(150)) evs.push_back({t_on + (int) r.range(1, 5000), e});   // repeated notice
					if (r.chance(700)) { J e0 = J::obj(); e0.set("node", pc::jaddr(sn)); e0.set("type", (int) MSG_STALL); e0.set("data", pc::jarr({0})); e0.set("tag", 11); evs.push_back({t_on + (r.chance(250) ? (int) r.range(2200000, 4500000) : (int) r.range(1000, 60000)), e0}); }   // (a quarter of the stalls lasts longer than the 2 s response expiry)
				}
			}
			std::stable_sort(evs.begin(), evs.end(), [](const std::pair<int, J> &a, const std::pair<int, J> &b) { return a.first < b.first; });
			for (auto &pe : evs) { pe.second.set("at_us", pe.first); ev.push(pe.second); }
			ph.set("bus", ev);
			J post = J::arr(); post.push("quiesce"); ph.set("post", post);
			phs.push(ph);
		}
		if (slow_answers) { J b2 = plan["bus"]; b2.set("resp_delay_us", (int) r.range(20000, 80000)); plan.set("bus", b2); }
		// heal: faults are over; every stall is cleared; expiry passes and every node sends further messages until the wire is stable
		{
			J ph = J::obj(); J pre = J::arr(); J h = J::obj(); h.set("op", "heal"); h.set("reverse", r.coin()); pre.push(h);
			ph.set("pre", pre); ph.set("heal", true);
			J post = J::arr(); post.push("quiesce"); ph.set("post", post);
			phs.push(ph);
		}
		se.set("phases", phs);
		J ss = J::arr(); ss.push(se); plan.set("sessions", ss);
		plan.set("sched", sched_json(r, tier, maxt, true));
		return plan;
	}

	// ---------------------------------------------------------------- model state
	std::vector<Sub> subs;
	size_t starts_seen = 0;
	std::map<std::string, std::vector<size_t>> by_key;        // key -> subs not yet matched to the wire (in invocation order)
	std::map<uint32_t, std::vector<Out>> safe_q, live_q;      // outstanding per node: lenient-low / lenient-high
	std::vector<StallWin> wins;
	std::map<uint32_t, std::vector<size_t>> wire_per_node;     // sub indices in wire order
	uint64_t n_model_ahead_of_library = 0, n_def_deferred = 0, n_stall_stamped = 0, n_deferred = 0, n_expired = 0, n_alt = 0, n_released_after_stall = 0, n_due_checked = 0, max_budget = 0, n_hol = 0;
	bool healed = false;
	Engine *E = nullptr;
	struct Trigger { std::vector<size_t> held; std::string why; };
	std::vector<Trigger> triggers;
	std::map<uint64_t, std::vector<bool>> live_changed;      // frame id -> per message: did the lenient-high model free capacity
	struct Credit { uint8_t first; uint64_t second; uint64_t frame; };
	std::map<uint32_t, std::vector<Credit>> credits;   // delivered messages not yet attributed to a request

	void ingest_starts(Engine &e) {
		for (; starts_seen < e.starts.size(); starts_seen++) {
			const OpStart &s = e.starts[starts_seen];
			Sub b; b.start_idx = starts_seen; b.exp = pc::ll_expected(*s.op); b.key = pc::msg_key(b.exp); b.node = b.exp.addr_key();
			b.size = pc::resp_info(b.exp.type).size;
			// requests that were on the wire before this call began and are still outstanding in the lenient-low accounting are outstanding in
			// the library's accounting too: if they leave no room, the library held this message back and stamps it only when it admits it
			if (b.size > 0) { int before = 0; for (auto &o : safe_q[b.node]) if (o.wire_step < s.inv_step) before += o.size; if (before + b.size > 48) b.def_deferred = true; }
			by_key[b.key].push_back(subs.size());
			subs.push_back(b);
		}
	}

	bool stall_active_for(uint32_t node, uint64_t step_now, bool definitely) {
		// definitely: STALL=1 known processed and no STALL=0 delivery started; !definitely: any possibility of a stall being in force
		for (auto &w : wins) {
			if (!in_subtree(node, w.node)) continue;
			if (definitely) { if (w.t1_processed && w.t1_processed <= step_now && !w.t0_first) return true; }
			else { if (w.t1_first && !w.t0_processed) return true; }
		}
		return false;
	}

	int sum(const std::vector<Out> &q) { int s = 0; for (auto &o : q) s += o.size; return s; }
	// after the lenient-low accounting of a node shrank: messages the library must have held back may be admitted from now on
	void recheck_deferred(Engine &e, uint32_t node, int64_t now_s) {
		for (auto &b : subs) {
			if (!b.def_deferred || b.node != node || b.wire_idx >= 0 || b.admit_low_s >= 0) continue;
			int before = 0; for (auto &o : safe_q[node]) if (o.wire_step < e.starts[b.start_idx].inv_step) before += o.size;
			if (before + b.size <= 48) b.admit_low_s = now_s;
		}
	}

	void attach(Engine &e) override {
		E = &e;
		subs.clear(); starts_seen = 0; by_key.clear(); safe_q.clear(); live_q.clear(); wins.clear(); wire_per_node.clear();
		n_model_ahead_of_library = 0; g_lib_used.clear(); sim::hooks().on_syslog = flow_syslog_hook; n_def_deferred = n_deferred = n_expired = n_alt = n_released_after_stall = n_due_checked = max_budget = n_hol = 0; healed = false; triggers.clear(); credits.clear(); live_changed.clear();

		e.bus.on_wire = [this, &e](const bus::WireRec &w) {
			ingest_starts(e);
			std::string k = pc::msg_key(w.msg);
			auto it = by_key.find(k);
			if (it == by_key.end() || it->second.empty())
				e.violate("UNEXPECTED_ON_WIRE", "wire", "message " + k + " is on the wire but no pending call submitted it (duplicate or corrupted transmission)");
			size_t si = it->second.front();
			it->second.erase(it->second.begin());
			Sub &s = subs[si];
			s.wire_idx = (long) (e.bus.wire.size() - 1);
			wire_per_node[s.node].push_back(si);
			const OpStart &st = e.starts[s.start_idx];
			int64_t now_s = sim::time_s();
			// ---- C04: nothing into a stalled subtree
			for (auto &win : wins) {
				if (!in_subtree(s.node, win.node)) continue;
				if (win.t1_processed && st.inv_step > win.t1_processed && !win.t0_first) {
					char d[400];
					snprintf(d, sizeof d, "message %s (call invoked at step %llu) reached the wire at step %llu although node %u.%u.%u reported MSG_STALL=1 (known processed at step %llu) and has not reported MSG_STALL=0",
					         k.c_str(), (unsigned long long) st.inv_step, (unsigned long long) w.step, (win.node >> 16) & 255, (win.node >> 8) & 255, win.node & 255, (unsigned long long) win.t1_processed);
					e.violate("SENT_INTO_STALLED_SUBTREE", depth_of(win.node) == 0 ? "stall reported by the interface (node 0)" : in_subtree(s.node, win.node) && s.node != win.node ? "descendant of stalled node" : "stalled node itself", d);
				}
			}
			// ---- C03 safety: outstanding budget at emission (lenient-low model)
			auto &sq = safe_q[s.node];
			{ size_t n0 = sq.size(); for (size_t i = 0; i < sq.size();) { if (now_s - sq[i].t_inv_s >= 2) sq.erase(sq.begin() + (long) i); else i++; } if (sq.size() != n0) recheck_deferred(e, s.node, now_s); }
			if (s.size > 0) {
				int tot = sum(sq) + s.size;
				if ((uint64_t) tot > max_budget) max_budget = (uint64_t) tot;
				if (tot > 48) {
					char d[300];
					snprintf(d, sizeof d, "emitting %s (worst-case response %d bytes) while %d bytes of responses are still outstanding for that node: %d > 48", k.c_str(), s.size, tot - s.size, tot);
					e.violate("BUDGET_EXCEEDED", "node " + s.exp.addr_str(), d);
				}
				// a message of an accepted answer type delivered after the call was invoked (while the request still sat in the
				// send buffer) may already have been taken as its answer: type-based matching cannot tell it from the real one
				bool pre_answered = false;
				auto &cr = credits[s.node];
				const auto &acc = pc::resp_info(s.exp.type).answers;
				for (size_t i = 0; i < cr.size(); i++) {
					// the library attributes an uplink message to the requests it finds queued at the moment it PROCESSES the message: any time
					// between its delivery and the receiver's next poll (the receiver thread may be descheduled in between). A request whose call
					// was invoked before the message is known to be processed may therefore be freed by it.
					bool may_match = cr[i].second > st.inv_step;
					if (!may_match) for (auto &fr : e.bus.done) if (fr.id == cr[i].frame && (!fr.processed || fr.processed_step > st.inv_step)) may_match = true;
					if (may_match && std::find(acc.begin(), acc.end(), cr[i].first) != acc.end()) { cr.erase(cr.begin() + (long) i); pre_answered = true; break; }
				}
				// the 2 s of a request run from the moment the library admits it: not before the call began, and for a message the library
				// must have held back not before the lenient-low accounting had room for it
				int64_t stamp_low = st.inv_time_s;
				if (s.def_deferred) { stamp_low = s.admit_low_s >= 0 ? s.admit_low_s : now_s; n_def_deferred++; }
				// ... and for a message submitted into a stall that was known processed, not before the MSG_STALL=0 began to be delivered
				for (auto &win : wins) if (in_subtree(s.node, win.node) && win.t1_processed && st.inv_step > win.t1_processed && win.t0_first && win.t0_first > st.inv_step && win.t0_first_s > stamp_low) { if (stamp_low == st.inv_time_s) n_stall_stamped++; stamp_low = win.t0_first_s; }
				if (!pre_answered) sq.push_back(Out{si, s.size, s.exp.type, stamp_low, now_s, w.step});
				live_q[s.node].push_back(Out{si, s.size, s.exp.type, st.inv_time_s, now_s, w.step});
				if (getenv("VERIF_DEBUG")) fprintf(stderr, "[model t=%llu] wire %s size %d -> live sum=%d\n", (unsigned long long) sim::now_us(), k.c_str(), s.size, sum(live_q[s.node]));
			}
		};

		e.bus.on_delivered = [this, &e](bus::UpFrame &f) {
			(void) e;
			// lenient-low model: an answer frees the oldest request that accepts it as soon as it is delivered
			if (f.corrupted) return;
			int64_t now_s = sim::time_s();
			live_changed[f.id].assign(f.msgs.size(), false);
			for (size_t mi = 0; mi < f.msgs.size(); mi++) {
				auto &m = f.msgs[mi];
				uint32_t nk = m.addr_key();
				if (m.type != MSG_STALL) {
					// lenient-high FIFO model: only the head is matched; every entry that is >= 2 s old (by wire time) is expired
	auto &lq = live_q[nk];
					bool changed = false;
					auto match_head = [&]() {
						if (lq.empty()) return false;
						const auto &acc = pc::resp_info(lq[0].type).answers;
						if (std::find(acc.begin(), acc.end(), m.type) != acc.end()) { lq.erase(lq.begin()); return true; }
						return false;
					};
					if (match_head()) changed = true;
					else {
						// expired requests leave; if one of them accepted this very message type the library (which matches the oldest
						// request first, expired or not) may have spent the message on it: the upper bound keeps the fresh request then
						size_t before = lq.size();
						bool spent_on_expired = false;
						while (!lq.empty() && now_s - lq[0].t_wire_s >= 2) {
							const auto &acc = pc::resp_info(lq[0].type).answers;
							if (std::find(acc.begin(), acc.end(), m.type) != acc.end()) spent_on_expired = true;
							lq.erase(lq.begin()); n_expired++;
						}
						if (lq.size() != before) { changed = true; if (!spent_on_expired) match_head(); }
						else if (!lq.empty()) n_hol++;
					}
					live_changed[f.id][mi] = changed;
				}
				auto &sq = safe_q[nk];
				bool used = false;
				// (requests that can have expired by now leave first: the library, finding that the oldest request does not accept the message,
				// expires them and then matches the message against the request that has become the oldest - a late answer to an expired
				// request is spent on a fresh request of the same kind. The lower bound must not spend it on the expired one.)
				if (m.type != MSG_STALL) { size_t n0 = sq.size(); for (size_t i = 0; i < sq.size();) { if (now_s - sq[i].t_inv_s >= 2) sq.erase(sq.begin() + (long) i); else i++; } if (sq.size() != n0) recheck_deferred(e, nk, now_s); }
				for (size_t i = 0; i < sq.size(); i++) {
					const auto &acc = pc::resp_info(sq[i].type).answers;
					if (std::find(acc.begin(), acc.end(), m.type) != acc.end()) { sq.erase(sq.begin() + (long) i); used = true; break; }
				}
				if (used) recheck_deferred(e, nk, now_s);
				if (!used) credits[nk].push_back({m.type, f.last_read_step, f.id});
				if (m.type == MSG_STALL && !m.data.empty()) {
					if (m.data[0]) { StallWin w; w.node = nk; w.depth = depth_of(nk); w.t1_first = f.first_read_step; wins.push_back(w); f.tag |= 0x1000; }
					else for (auto &w : wins) if (w.node == nk && !w.t0_first) { w.t0_first = f.first_read_step; w.t0_first_s = now_s; }
				}
			}
		};

		e.bus.on_processed = [this, &e](bus::UpFrame &f) {
			if (f.corrupted) return;
			ingest_starts(e);
			for (size_t mi = 0; mi < f.msgs.size(); mi++) {
				auto &m = f.msgs[mi];
				uint32_t nk = m.addr_key();
				if (m.type == MSG_STALL && !m.data.empty()) {
					if (m.data[0]) { for (auto &w : wins) if (w.node == nk && !w.t1_processed && w.t1_first == f.first_read_step) w.t1_processed = f.processed_step; }
					else for (auto &w : wins) if (w.node == nk && w.t0_first && !w.t0_processed) { w.t0_processed = f.processed_step; w.cleared = true; }
					continue;   // stall notices are not answers
				}
				auto &lq = live_q[nk];
				bool changed = live_changed[f.id].size() > mi ? live_changed[f.id][mi] : false;
				if (getenv("VERIF_DEBUG")) { fprintf(stderr, "[model t=%llu] processed type 0x%02x from %s: live sum=%d n=%zu head=0x%02x changed=%d\n", (unsigned long long) sim::now_us(), m.type, m.addr_str().c_str(), sum(lq), lq.size(), lq.empty() ? 0 : lq[0].type, (int) changed); }
				if (!changed) continue;
				// never stranded: oldest held message of this node must now be handed over if nothing impedes it
				if (stall_active_for(nk, f.processed_step, false)) continue;
				std::vector<size_t> held; int maxsz = 0; bool inflight = false;
				for (size_t i = 0; i < subs.size(); i++) {
					if (subs[i].node != nk || subs[i].wire_idx >= 0) continue;
					const OpStart &st = e.starts[subs[i].start_idx];
					if (!st.returned || st.ret_step >= f.first_read_step) { inflight = true; break; }   // a call still in flight: do not judge
					held.push_back(i); maxsz = std::max(maxsz, subs[i].size);
				}
				if (inflight || held.empty()) continue;
				// The upper-bound model is only an upper bound while its queue and the library's have not drifted apart: the library decides "expired" in whole
				// seconds from the moment it admitted a request, the model from the moment the request was written, and whether the oldest request
				// accepts a message decides between "free one" and "expire all". Once they disagree about one head, the model can expire wholesale what the
				// library still keeps. The library reports its own figure after every update (debug log line); a trigger is only noted when that
				// figure leaves room as well (a library that never frees its budget is caught by the exactly-once check after the heal phase).
				auto lu = g_lib_used.find(nk);
				if (lu != g_lib_used.end() && lu->second + maxsz > 48) { n_model_ahead_of_library++; continue; }
				if (sum(lq) + maxsz <= 48) {
					char d[260]; snprintf(d, sizeof d, "after a message (type 0x%02x) from node %s was processed at step %llu the node was not stalled and had %d bytes of responses outstanding, room for any of its %zu held messages (largest %d bytes)",
					                      m.type, m.addr_str().c_str(), (unsigned long long) f.processed_step, sum(lq), held.size(), maxsz);
					triggers.push_back(Trigger{held, d});
				}
			}
		};
	}

	void after_op(Engine &e, OpRec &) override { ingest_starts(e); }

	void check_order(Engine &e) {
		for (auto &kv : wire_per_node) {
			const auto &v = kv.second;
			for (size_t i = 0; i + 1 < v.size(); i++) {
				// wire has v[i] before v[i+1]: violation if call(v[i+1]) returned before call(v[i]) was invoked
				const OpStart &a = e.starts[subs[v[i]].start_idx], &b = e.starts[subs[v[i + 1]].start_idx];
				if (b.returned && b.ret_step < a.inv_step) {
					char d[300];
					snprintf(d, sizeof d, "node %s: %s (call returned at step %llu) is on the wire after %s (call invoked later, at step %llu)",
					         subs[v[i]].exp.addr_str().c_str(), subs[v[i + 1]].key.c_str(), (unsigned long long) b.ret_step, subs[v[i]].key.c_str(), (unsigned long long) a.inv_step);
					e.violate("FIFO_ORDER", "per-node wire order vs call order", d);
				}
			}
		}
	}

	void at_quiescence(Engine &e, int s, int p) override {
		ingest_starts(e);
		if (!e.bus.dec.error.empty()) e.violate("FRAMING", "downlink", e.bus.dec.error);
		check_order(e);
		bool heal = e.plan["sessions"][(size_t) s]["phases"][(size_t) p].getb("heal");
		// never stranded: for every trigger at least one of the then-held messages must be on the wire now (the harness has flushed)
		for (auto &t : triggers) {
			bool any = false;
			for (size_t i : t.held) if (subs[i].wire_idx >= 0) any = true;
			n_due_checked++;
			if (!any) e.violate("STRANDED", "held message not released", "message " + subs[t.held[0]].key + " (and " + std::to_string(t.held.size() - 1) + " more) still held back: " + t.why);
		}
		triggers.clear();
		// a node that is neither stalled nor has anything outstanding must have been served at once
		if (!heal) {
			std::map<uint32_t, std::vector<size_t>> heldby;
			for (size_t i = 0; i < subs.size(); i++) if (subs[i].wire_idx < 0 && e.starts[subs[i].start_idx].returned) heldby[subs[i].node].push_back(i);
			for (auto &kv : heldby) {
				if (stall_active_for(kv.first, sim::step(), false)) continue;
				bool ever_stalled = false; for (auto &w : wins) if (in_subtree(kv.first, w.node)) ever_stalled = true;
				if (ever_stalled) continue;   // release after a stall is checked at the end of the run
				if (!live_q[kv.first].empty()) continue;
				// (same reservation as for the stranded-trigger: the model's queue may have been expired wholesale while the library, whose oldest
				// request had matched, still counts some of it - judged only if the library's own figure leaves room for the held message)
				{ auto lu = g_lib_used.find(kv.first); if (lu != g_lib_used.end() && lu->second + subs[kv.second[0]].size > 48) { n_model_ahead_of_library++; continue; } }
				e.violate("NOT_ADMITTED", is_c04 ? "node outside every stalled subtree" : "idle node", "message " + subs[kv.second[0]].key + " is held back although its node has no outstanding responses and neither it nor an ancestor ever reported a stall");
			}
		}
		if (heal) {
			healed = true;
			for (auto &b : subs) {
				if (b.wire_idx >= 0) continue;
				const OpStart &st = e.starts[b.start_idx];
				(void) st;
				e.violate(is_c04 ? "NOT_RESUMED" : "NOT_EXACTLY_ONCE", "end of run after faults stopped",
				          "message " + b.key + " was submitted but never transmitted, although every stall was cleared, all requests are older than 2 s and every node has sent further messages");
			}
		}
	}

	void coverage(Engine &e, J &f) override {
		// deferred = on the wire only after its call had returned and later traffic released it
		uint64_t deferred = 0, held_by_ancestor = 0;
		for (auto &b : subs) {
			if (b.wire_idx < 0) continue;
			const OpStart &st = e.starts[b.start_idx];
			const bus::WireRec &w = e.bus.wire[(size_t) b.wire_idx];
			if (st.returned && w.step > st.ret_step && w.task == e.bus.receiver_task) deferred++;
			if (st.returned && w.step > st.ret_step) {
				for (auto &win : wins) if (win.cleared && in_subtree(b.node, win.node) && b.node != win.node && st.inv_step > win.t1_first && w.step >= win.t0_first) { held_by_ancestor++; break; }
			}
		}
		// count deferrals more simply: messages written by a task other than the submitter
		uint64_t by_other = 0;
		for (auto &b : subs) if (b.wire_idx >= 0) { const OpStart &st = e.starts[b.start_idx]; if (st.returned && e.bus.wire[(size_t) b.wire_idx].step > st.ret_step) by_other++; }
		uint64_t alts = e.bus.fired.count("alt") ? e.bus.fired["alt"] : 0;
		bool nt = is_c04 ? held_by_ancestor > 0 : (by_other > 0 && (n_expired > 0 || alts > 0));
		f.set("nontrivial", nt);
		f.set("shape", (long long) (pc::shape_hash(e.plan) >> 1));
		J p = J::obj();
		p.set("released_after_call_returned", (long long) by_other); p.set("model_expiries", (long long) n_expired); p.set("head_of_line_waits", (long long) n_hol);
		p.set("due_messages_checked", (long long) n_due_checked); p.set("stall_windows", (long long) wins.size()); p.set("held_by_ancestor_stall_then_released", (long long) held_by_ancestor);
		p.set("max_model_budget_ge_40", max_budget >= 40 ? 1 : 0); p.set("submitted", (long long) subs.size());
		uint64_t root_stalls = 0; for (auto &w : wins) if (w.depth == 0) root_stalls++;
		p.set("stall_from_interface", (long long) root_stalls); p.set("requests_known_to_have_been_held_back", (long long) n_def_deferred); p.set("stranded_checks_skipped_because_the_librarys_own_figure_had_no_room", (long long) n_model_ahead_of_library); p.set("requests_held_by_a_stall_and_stamped_at_its_end", (long long) n_stall_stamped);
		{ long long fl = 0, ob = 0; for (size_t q = 0; q < e.plan["sessions"][0]["phases"].size(); q++) { if (e.plan["sessions"][0]["phases"][q].getb("stall_flood")) fl++; if (e.plan["sessions"][0]["phases"][q].getb("stall_overbudget")) ob++; } if (is_c04) { p.set("focused_stall_with_130_to_170_held_messages", fl); p.set("focused_stall_with_more_requests_than_one_budget", ob); } }
		f.set("probes", p);
	}
};

}  // namespace

Prop *make_c03() { return new Flow(false); }
Prop *make_c04() { return new Flow(true); }

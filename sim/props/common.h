// Helpers shared by property generators / oracles.
#pragma once
#include "../engine.h"
#include "../catalog.h"
#include "../getters.h"
#include <algorithm>
#include <map>

namespace pc {

inline J jarr(std::initializer_list<int> v) { J a = J::arr(); for (int x : v) a.push(x); return a; }
inline J jaddr(const std::vector<uint8_t> &v) { J a = J::arr(); for (uint8_t x : v) a.push((int) x); return a; }
inline J jnode3(const std::vector<uint8_t> &v) { J a = J::arr(); for (size_t i = 0; i < 3; i++) a.push(i < v.size() ? (int) v[i] : 0); return a; }

struct TreeNode { std::vector<uint8_t> addr; uint8_t uid[7]; };

// random node tree: interface + up to `max_nodes` nodes, depth <= 3; interior nodes carry the interface class bit
inline std::vector<TreeNode> gen_tree(Rng &r, int max_nodes, int max_depth = 3) {
	std::vector<TreeNode> t;
	TreeNode root; root.addr = {}; uint8_t ru[7] = {0x80 | 0x10, 0x00, 0x0D, 0x68, 0x00, 0x01, 0xEE};
	memcpy(root.uid, ru, 7);
	t.push_back(root);
	int n = (int) r.range(1, std::max(1, max_nodes));
	for (int i = 0; i < n; i++) {
		// pick a parent that can still have children
		std::vector<size_t> cands;
		for (size_t k = 0; k < t.size(); k++) if ((int) t[k].addr.size() < max_depth && (t[k].uid[0] & 0x80)) cands.push_back(k);
		if (cands.empty()) break;
		size_t p = cands[r.below(cands.size())];
		TreeNode c; c.addr = t[p].addr;
		uint8_t local;
		for (;;) {
			local = (uint8_t) r.range(1, r.chance(100) ? 255 : 9);
			bool used = false;
			for (auto &x : t) if (x.addr.size() == c.addr.size() + 1 && std::equal(c.addr.begin(), c.addr.end(), x.addr.begin()) && x.addr.back() == local) used = true;
			if (!used) break;
		}
		c.addr.push_back(local);
		bool iface = (int) c.addr.size() < max_depth && r.chance(400);
		static const uint8_t classes[] = {0x01, 0x02, 0x04, 0x10, 0x40, 0x12, 0x52, 0x45, 0x42, 0x05};
		c.uid[0] = (uint8_t) (classes[r.below(10)] | (iface ? 0x80 : 0));
		c.uid[1] = 0; c.uid[2] = 0x0D; c.uid[3] = r.byte(); c.uid[4] = r.byte(); c.uid[5] = (uint8_t) i; c.uid[6] = (uint8_t) (0xA0 + i);
		t.push_back(c);
	}
	return t;
}
inline J tree_json(const std::vector<TreeNode> &t) {
	J ns = J::arr();
	for (auto &n : t) { J j = J::obj(); j.set("addr", jaddr(n.addr)); j.set("uid", hex_of(n.uid, 7)); ns.push(j); }
	return ns;
}

inline J ll_op(Rng &r, const cat::LL &f, const std::vector<uint8_t> &addr) {
	J op = J::obj();
	op.set("op", "ll"); op.set("fn", f.name);
	op.set("node", f.to_interface_only ? jnode3({}) : jnode3(addr));
	cat::Bytes a; f.gen(r, a);
	op.set("a", hex_of(a));
	return op;
}

// expected wire message (sequence number not included) of an ll op
inline ref::Msg ll_expected(const J &op) {
	const cat::LL *f = cat::find(op.gets("fn"));
	ref::Msg m;
	std::vector<uint8_t> nd = j_bytes(op["node"]);
	for (size_t i = 0; i < nd.size() && i < 3; i++) { if (nd[i] == 0) break; m.addr.push_back(nd[i]); }
	m.type = f->type;
	f->enc(j_bytes(op["a"]), m.data);
	return m;
}

// Worst-case response size per downlink message type and the answer types that complete the request --
// reference copy written from the BiDiB protocol description (max. answer length incl. header),
// independent of the library's own table.
struct RespInfo { int size; std::vector<uint8_t> answers; };
inline const RespInfo &resp_info(uint8_t type) {
	static std::map<uint8_t, RespInfo> t;
	static RespInfo none{0, {}};
	if (t.empty()) {
		t[MSG_SYS_GET_MAGIC] = {6, {MSG_SYS_MAGIC}}; t[MSG_SYS_GET_P_VERSION] = {6, {MSG_SYS_P_VERSION}};
		t[MSG_SYS_GET_UNIQUE_ID] = {11, {MSG_SYS_UNIQUE_ID}}; t[MSG_SYS_GET_SW_VERSION] = {7, {MSG_SYS_SW_VERSION}};
		t[MSG_SYS_PING] = {5, {MSG_SYS_PONG}}; t[MSG_SYS_IDENTIFY] = {5, {MSG_SYS_IDENTIFY_STATE}};
		t[MSG_GET_PKT_CAPACITY] = {5, {MSG_PKT_CAPACITY}}; t[MSG_NODETAB_GETALL] = {5, {MSG_NODETAB_COUNT}};
		t[MSG_NODETAB_GETNEXT] = {13, {MSG_NODETAB, MSG_NODE_NA, MSG_NODETAB_COUNT}};
		t[MSG_SYS_GET_ERROR] = {10, {MSG_SYS_ERROR}}; t[MSG_FW_UPDATE_OP] = {6, {MSG_FW_UPDATE_STAT}};
		t[MSG_FEATURE_GETALL] = {5, {MSG_FEATURE_COUNT}}; t[MSG_FEATURE_GETNEXT] = {6, {MSG_FEATURE, MSG_FEATURE_NA}};
		t[MSG_FEATURE_GET] = {6, {MSG_FEATURE}}; t[MSG_FEATURE_SET] = {6, {MSG_FEATURE}};
		t[MSG_VENDOR_ENABLE] = {5, {MSG_VENDOR_ACK}}; t[MSG_VENDOR_DISABLE] = {5, {MSG_VENDOR_ACK}};
		t[MSG_VENDOR_SET] = {32, {MSG_VENDOR}}; t[MSG_VENDOR_GET] = {32, {MSG_VENDOR}};
		t[MSG_STRING_GET] = {30, {MSG_STRING}}; t[MSG_STRING_SET] = {30, {MSG_STRING}};
		t[MSG_BM_GET_RANGE] = {21, {MSG_BM_MULTIPLE, MSG_BM_OCC, MSG_BM_FREE}}; t[MSG_BM_GET_CONFIDENCE] = {7, {MSG_BM_CONFIDENCE}};
		t[MSG_BOOST_OFF] = {5, {MSG_BOOST_STAT}}; t[MSG_BOOST_ON] = {5, {MSG_BOOST_STAT}}; t[MSG_BOOST_QUERY] = {5, {MSG_BOOST_STAT}};
		t[MSG_ACCESSORY_SET] = {9, {MSG_ACCESSORY_STATE}}; t[MSG_ACCESSORY_GET] = {9, {MSG_ACCESSORY_STATE}};
		t[MSG_ACCESSORY_PARA_SET] = {9, {MSG_ACCESSORY_PARA}}; t[MSG_ACCESSORY_PARA_GET] = {9, {MSG_ACCESSORY_PARA}};
		t[MSG_LC_OUTPUT] = {7, {MSG_LC_STAT, MSG_LC_NA}}; t[MSG_LC_CONFIG_SET] = {10, {MSG_LC_CONFIG, MSG_LC_NA}};
		t[MSG_LC_CONFIG_GET] = {10, {MSG_LC_CONFIG, MSG_LC_NA}}; t[MSG_LC_KEY_QUERY] = {6, {MSG_LC_KEY, MSG_LC_NA}};
		t[MSG_LC_PORT_QUERY] = {7, {MSG_LC_STAT, MSG_LC_NA}}; t[MSG_LC_CONFIGX_SET] = {40, {MSG_LC_CONFIGX}}; t[MSG_LC_CONFIGX_GET] = {40, {MSG_LC_CONFIGX}};
		t[MSG_LC_MACRO_HANDLE] = {6, {MSG_LC_MACRO_STATE}}; t[MSG_LC_MACRO_SET] = {10, {MSG_LC_MACRO}}; t[MSG_LC_MACRO_GET] = {10, {MSG_LC_MACRO}};
		t[MSG_LC_MACRO_PARA_SET] = {10, {MSG_LC_MACRO_PARA}}; t[MSG_LC_MACRO_PARA_GET] = {10, {MSG_LC_MACRO_PARA}};
		t[MSG_CS_SET_STATE] = {5, {MSG_CS_STATE}}; t[MSG_CS_DRIVE] = {7, {MSG_CS_DRIVE_ACK}}; t[MSG_CS_ACCESSORY] = {7, {MSG_CS_ACCESSORY_ACK}};
		t[MSG_CS_BIN_STATE] = {7, {MSG_CS_DRIVE_ACK}}; t[MSG_CS_POM] = {10, {MSG_CS_POM_ACK}}; t[MSG_CS_RCPLUS] = {11, {MSG_CS_RCPLUS_ACK}};
		t[MSG_CS_PROG] = {5, {MSG_CS_PROG_STATE}};
	}
	auto it = t.find(type);
	return it == t.end() ? none : it->second;
}

inline std::string msg_key(const ref::Msg &m) {
	std::string k = m.addr_str(); char b[8]; snprintf(b, sizeof b, "/%02x/", m.type); k += b; k += hex_of(m.data); return k;
}

inline J debug_session(int flush_ms) {
	J se = J::obj(); J st = J::obj();
	st.set("mode", "debug"); st.set("flush_ms", flush_ms);
	se.set("start", st); se.set("phases", J::arr()); se.set("stop", true);
	return se;
}

inline uint64_t shape_hash(const J &plan) {
	// plan shape: op kinds/functions and counts, not argument values
	uint64_t h = FNV_INIT;
	const J &ss = plan["sessions"];
	for (size_t s = 0; s < ss.size(); s++) {
		const J &phs = ss[s]["phases"];
		for (size_t p = 0; p < phs.size(); p++) {
			const J &ts = phs[p]["tasks"];
			h = fnv1a_u64(h, ts.size());
			for (size_t t = 0; t < ts.size(); t++) for (size_t i = 0; i < ts[t].size(); i++) { std::string k = ts[t][i].gets("op") + ts[t][i].gets("fn"); h = fnv1a(h, k.data(), k.size()); }
			h = fnv1a_u64(h, phs[p]["bus"].size());
		}
	}
	return h;
}

}  // namespace pc

// Executable reference model of the tracked state, written from the BiDiB message descriptions and the
// public header documentation. It produces the same canonical JSON as getters::track_state(mask=true).
#pragma once
#include "cfggen.h"

namespace sm {

struct BoardAccS { std::string state_id; bool has_id = false; int value = 0, exec = 0x02, wait = 0; };
struct DccAccS { std::string state_id; bool has_id = false; int value = 0; bool coil_on = true, oct = true; int ack = BIDIB_DCC_ACK_PENDING, unit = 0, time = 0; };
struct PeriphS { std::string state_id; bool has_id = false; int value = 0, unit = 0, wait = 0; };
struct SegS { bool occ = false; bool cv = false, fr = false, ns = false; bool pk = false, po = false; long long pc = 0; std::vector<std::array<uint8_t, 3>> addrs; };
struct RevS { std::string state_id; bool has_id = false; int value = BIDIB_REV_EXEC_STATE_UNKNOWN; };
struct TrainS {
	bool on_track = false; int orient = 0; int speed = 0; bool fwd = true; int ack = BIDIB_DCC_ACK_PENDING; int kmh = 0;
	std::map<std::string, int> periph; bool sqk = false, tk = false, ek = false, c2k = false, c3k = false; int sq = 0, t = 0, es = 0, c2 = 0, c3 = 0;
	std::set<int> possible_orient;   // orientations reported with the address in the segments that list it
};
struct BoostS { int state = 0, simple = BIDIB_BSTR_SIMPLE_OFF; bool pk = false, po = false; long long pc = 0; bool vk = false; int v = 0; bool tk = false; int t = 0; };

struct Conn { bool connected = false; std::vector<uint8_t> addr; };

struct Model {
	cfg::World w;
	std::map<std::string, Conn> conn;
	std::map<std::string, BoardAccS> pb, sb;
	std::map<std::string, DccAccS> pd, sd;
	std::map<std::string, PeriphS> pe;
	std::map<std::string, SegS> sg;
	std::map<std::string, RevS> rv;
	std::map<std::string, TrainS> tr;
	std::map<std::string, BoostS> bo;
	std::map<std::string, int> to;
	std::vector<std::string> order_pb, order_pd, order_sb, order_sd, order_pe, order_sg, order_rv, order_tr, order_bo, order_to;
	uint64_t unknown_targets = 0, list_valued = 0;
	std::map<std::string, int> pending_hl;   // CS_ACCESSORY messages of a high-level command that are still in the send buffer: they do not clear the aspect id set by that command

	void init(const cfg::World &world) {
		w = world;
		for (auto &b : w.boards) {
			conn[b.id] = Conn();
			for (auto &a : b.points_board) { pb[a.id] = BoardAccS(); order_pb.push_back(a.id); }
			for (auto &a : b.signals_board) { sb[a.id] = BoardAccS(); order_sb.push_back(a.id); }
			for (auto &a : b.points_dcc) { pd[a.id] = DccAccS(); order_pd.push_back(a.id); }
			for (auto &a : b.signals_dcc) { DccAccS s; s.coil_on = false; sd[a.id] = s; order_sd.push_back(a.id); }
			for (auto &a : b.periphs) { pe[a.id] = PeriphS(); order_pe.push_back(a.id); }
			for (auto &a : b.segs) { sg[a.id] = SegS(); order_sg.push_back(a.id); }
			for (auto &a : b.revs) { rv[a.id] = RevS(); order_rv.push_back(a.id); }
			if (b.booster()) { bo[b.id] = BoostS(); order_bo.push_back(b.id); }
			if (b.track_output()) { to[b.id] = 0; order_to.push_back(b.id); }
		}
		for (auto &t : w.trains) { TrainS s; for (auto &p : t.periphs) s.periph[p.id] = 0; tr[t.id] = s; order_tr.push_back(t.id); }
	}
	// bidib_send_sys_reset() while the library runs: every tracked value returns to its initial value (configuration and counters stay)
	void reset_state() {
		cfg::World w2 = w; uint64_t ut = unknown_targets, lv = list_valued;
		*this = Model(); init(w2); unknown_targets = ut; list_valued = lv;
	}
	void set_connected_from_tree(const bus::Bus &bus) {
		for (auto &b : w.boards) {
			int idx = bus.find_uid(b.uid);
			Conn c;
			if (idx >= 0 && bus.nodes[(size_t) idx].present && bus.subtree_present(idx)) { c.connected = true; c.addr = bus.nodes[(size_t) idx].addr; }
			conn[b.id] = c;
		}
	}
	const cfg::Board *board_at(const std::vector<uint8_t> &addr) const {
		for (auto &b : w.boards) { auto it = conn.find(b.id); if (it != conn.end() && it->second.connected && it->second.addr == addr) return &b; }
		return nullptr;
	}
	const cfg::Train *train_by_addr(uint8_t l, uint8_t h) const { for (auto &t : w.trains) if (t.addrl == l && t.addrh == h) return &t; return nullptr; }

	static void current_code(int c, bool &known, bool &over, long long &cur) {
		if (c == 0) { known = true; over = false; cur = 0; }
		else if (c < 16) { known = true; over = false; cur = c; }
		else if (c < 64) { known = true; over = false; cur = (c - 12) * 4; }
		else if (c < 128) { known = true; over = false; cur = (c - 51) * 16; }
		else if (c < 192) { known = true; over = false; cur = (c - 108) * 64; }
		else if (c < 251) { known = true; over = false; cur = (c - 171) * 256; }
		else if (c < 254) { known = false; }
		else if (c == 254) { known = true; over = true; }
		else known = false;
	}
	static int dcc_speed_to_lib(int sp) { int st = sp & 0x7F; if (st == 0 || st == 1) return 0; st--; if (!(sp & 0x80)) st = -st; return st; }

	void update_trains() {
		for (auto &t : w.trains) {
			TrainS &s = tr[t.id];
			std::set<int> ors; bool any = false; int last = 0;
			for (auto &b : w.boards) for (auto &g : b.segs) for (auto &a : sg[g.id].addrs) if (a[0] == t.addrl && a[1] == t.addrh) { any = true; last = a[2] == 0 ? 0 : 1; ors.insert(last); }
			// iteration order of the library is the order of segment declaration; the orientation of the last listing wins, but any listed one is acceptable
			s.on_track = any; s.possible_orient = ors; if (any) s.orient = last;
		}
	}

	// the effect of a drive command (manual report from the command station or the user's own command)
	void apply_drive(const cfg::Train &t, int active, int speed, const int f[4]) {
		TrainS &s = tr[t.id];
		if (active == 0) { s.speed = 0; s.fwd = true; for (auto &kv : s.periph) kv.second = 0; return; }
		if (active & 1) { s.speed = dcc_speed_to_lib(speed); s.fwd = speed >= 0x80; }
		s.ack = BIDIB_DCC_ACK_PENDING;
		auto setbits = [&](int lo, int hi) { for (auto &p : t.periphs) if (p.bit >= lo && p.bit <= hi) s.periph[p.id] = (f[p.bit / 8] >> (p.bit % 8)) & 1; };
		if (active & 2) setbits(0, 4);
		if (active & 4) setbits(8, 11);
		if (active & 8) setbits(12, 15);
		if (active & 16) setbits(16, 23);
		if (active & 32) setbits(24, 31);
	}
	void apply_dcc_accessory_cmd(const std::vector<uint8_t> &node, uint8_t l, uint8_t h, int data, int time) {
		const cfg::Board *b = board_at(node); if (!b) return;
		auto doit = [&](const std::vector<cfg::DccAcc> &v, std::map<std::string, DccAccS> &m) { for (auto &a : v) if (a.addrl == l && a.addrh == h) { DccAccS &s = m[a.id]; if (pending_hl[a.id] > 0) pending_hl[a.id]--; else { s.has_id = false; s.state_id.clear(); } s.value = data & 0x1F; s.coil_on = (data >> 5) & 1; s.oct = !((data >> 6) & 1); s.unit = (time >> 7) & 1; s.time = time & 0x7F; return true; } return false; };
		if (!doit(b->points_dcc, pd)) doit(b->signals_dcc, sd);
	}

	// one uplink message, after it has been processed
	void apply_uplink(const ref::Msg &m) {
		const std::vector<uint8_t> &d = m.data;
		auto D = [&](size_t i) -> int { return i < d.size() ? d[i] : 0; };
		const cfg::Board *b = board_at(m.addr);
		auto seg_of = [&](int num) -> SegS * { if (!b) return nullptr; for (auto &g : b->segs) if (g.addr == num) return &sg[g.id]; return nullptr; };
		if (m.type == MSG_NODE_NEW || m.type == MSG_NODE_LOST) { apply_topology(m); return; }
		switch (m.type) {
			case MSG_BM_OCC: case MSG_BM_FREE: {
				if (d.size() < 1) return;
				SegS *s = seg_of(D(0)); if (!s) { unknown_targets++; return; }
				s->occ = m.type == MSG_BM_OCC; if (!s->occ) s->addrs.clear();
				update_trains(); break;
			}
			case MSG_BM_MULTIPLE: {
				if (d.size() < 2 || (int) d.size() < 2 + (D(1) + 7) / 8) return;
				list_valued++;
				for (int i = 0; i < D(1); i++) { if (D(0) + i >= 255) continue; SegS *s = seg_of(D(0) + i); if (!s) continue; bool bit = (d[2 + (size_t) i / 8] >> (i % 8)) & 1; s->occ = bit; if (!bit) s->addrs.clear(); }
				update_trains(); break;
			}
			case MSG_BM_ADDRESS: {
				if (d.size() < 1) return;
				list_valued++;
				SegS *s = seg_of(D(0)); if (!s) { unknown_targets++; return; }
				size_t cnt = (d.size() - 1) / 2;
				s->addrs.clear();
				if (!(cnt == 1 && D(1) == 0 && D(2) == 0))
					for (size_t i = 0; i < cnt; i++) { int l = D(1 + 2 * i), h = D(2 + 2 * i); if (h & 0x40) continue; s->addrs.push_back({(uint8_t) l, (uint8_t) (h & 0x3F), (uint8_t) ((h >> 6) & 3)}); }
				update_trains(); break;
			}
			case MSG_BM_CURRENT: { if (d.size() < 2) return; SegS *s = seg_of(D(0)); if (!s) { unknown_targets++; return; } current_code(D(1), s->pk, s->po, s->pc); break; }
			case MSG_BM_CONFIDENCE: { if (d.size() < 3) return; if (!b) { unknown_targets++; return; } for (auto &g : b->segs) { SegS &s = sg[g.id]; s.cv = D(0) != 0; s.fr = D(1) != 0; s.ns = D(2) != 0; } break; }
			case MSG_BM_SPEED: { if (d.size() < 4) return; const cfg::Train *t = train_by_addr((uint8_t) D(0), (uint8_t) D(1)); if (!t) { unknown_targets++; return; } tr[t->id].kmh = (D(3) << 8) | D(2); break; }
			case MSG_BM_DYN_STATE: {
				if (d.size() < 5) return; const cfg::Train *t = train_by_addr((uint8_t) D(1), (uint8_t) D(2)); if (!t) { unknown_targets++; return; }
				TrainS &s = tr[t->id]; int v = D(4);
				switch (D(3)) { case 1: s.sqk = true; s.sq = v; break; case 2: s.tk = true; s.t = (int8_t) v; break; case 3: s.ek = true; s.es = v; break; case 4: s.c2k = true; s.c2 = v; break; case 5: s.c3k = true; s.c3 = v; break; default: break; }
				break;
			}
			case MSG_BOOST_STAT: {
				if (d.size() < 1) return; if (!b || !b->booster()) { unknown_targets++; return; }
				BoostS &s = bo[b->id]; s.state = D(0);
				switch (D(0)) { case 0x80: case 0x81: case 0x82: case 0x84: s.simple = BIDIB_BSTR_SIMPLE_ON; break; case 0x00: case 0x04: case 0x05: case 0x06: case 0x03: s.simple = BIDIB_BSTR_SIMPLE_OFF; break; default: s.simple = BIDIB_BSTR_SIMPLE_ERROR; }
				break;
			}
			case MSG_BOOST_DIAGNOSTIC: {
				if (d.size() < 2) return; list_valued++;
				if (!b || !b->booster()) { unknown_targets++; return; }
				BoostS &s = bo[b->id];
				for (size_t i = 0; i + 1 < d.size(); i += 2) {
					if (d[i] == 0) current_code(d[i + 1], s.pk, s.po, s.pc);
					else if (d[i] == 1) { if (d[i + 1] < 251) { s.vk = true; s.v = d[i + 1]; } else s.vk = false; }
					else if (d[i] == 2) { s.tk = true; s.t = (int8_t) d[i + 1]; }
				}
				break;
			}
			case MSG_CS_STATE: { if (d.size() < 1) return; if (!b || !b->track_output()) { unknown_targets++; return; } to[b->id] = D(0); break; }
			case MSG_CS_DRIVE_ACK: { if (d.size() < 3) return; const cfg::Train *t = train_by_addr((uint8_t) D(0), (uint8_t) D(1)); if (!t) { unknown_targets++; return; } tr[t->id].ack = D(2); break; }
			case MSG_CS_ACCESSORY_ACK: {
				if (d.size() < 3) return; if (!b) { unknown_targets++; return; }
				bool f = false;
				for (auto &a : b->points_dcc) if (a.addrl == D(0) && a.addrh == D(1)) { pd[a.id].ack = D(2); f = true; }
				if (!f) for (auto &a : b->signals_dcc) if (a.addrl == D(0) && a.addrh == D(1)) { sd[a.id].ack = D(2); f = true; }
				if (!f) unknown_targets++;
				break;
			}
			case MSG_CS_DRIVE_MANUAL: {
				if (d.size() < 9) return; const cfg::Train *t = train_by_addr((uint8_t) D(0), (uint8_t) D(1)); if (!t) { unknown_targets++; return; }
				int f[4] = {D(5), D(6), D(7), D(8)}; apply_drive(*t, D(3), D(4), f); break;
			}
			case MSG_CS_ACCESSORY_MANUAL: {
				if (d.size() < 3) return; if (!b) { unknown_targets++; return; }
				bool f = false;
				auto doit = [&](const std::vector<cfg::DccAcc> &v, std::map<std::string, DccAccS> &mm) { for (auto &a : v) if (a.addrl == D(0) && a.addrh == D(1)) { DccAccS &s = mm[a.id]; s.value = D(2) & 0x1F; s.coil_on = (D(2) >> 5) & 1; s.time = 0; f = true; return; } };
				doit(b->points_dcc, pd); if (!f) doit(b->signals_dcc, sd);
				if (!f) unknown_targets++;
				break;
			}
			case MSG_ACCESSORY_STATE: case MSG_ACCESSORY_NOTIFY: {
				if (d.size() < 5) return; if (!b) { unknown_targets++; return; }
				bool f = false;
				auto doit = [&](const std::vector<cfg::BoardAcc> &v, std::map<std::string, BoardAccS> &mm) {
					for (auto &a : v) if (a.number == D(0)) { BoardAccS &s = mm[a.id]; s.has_id = false; s.state_id.clear(); for (auto &as : a.aspects) if (as.value == D(1)) { s.has_id = true; s.state_id = as.id; break; } s.value = D(1); s.exec = D(3); s.wait = D(4); f = true; return; }
				};
				doit(b->points_board, pb); if (!f) doit(b->signals_board, sb);
				if (!f) unknown_targets++;
				break;
			}
			case MSG_LC_STAT: case MSG_LC_WAIT: {
				if (d.size() < 3) return; if (!b) { unknown_targets++; return; }
				bool f = false;
				for (auto &p : b->periphs) if (p.port0 == D(0) && p.port1 == D(1)) {
					PeriphS &s = pe[p.id]; f = true;
					if (m.type == MSG_LC_STAT) { s.has_id = false; s.state_id.clear(); for (auto &as : p.aspects) if (as.value == D(2)) { s.has_id = true; s.state_id = as.id; break; } s.value = D(2); }
					else { s.unit = (D(2) >> 7) & 1; s.wait = D(2) & 0x7F; }
					break;
				}
				if (!f) unknown_targets++;
				break;
			}
			case MSG_VENDOR: {
				if (d.size() < 2) return; size_t nl = d[0]; if (nl + 2 > d.size()) return; size_t vl = d[nl + 1]; if (nl + 2 + vl > d.size()) return;
				if (!b) { unknown_targets++; return; }
				std::string name((const char *) &d[1], nl);
				name = name.substr(0, strlen(name.c_str()));
				std::string val((const char *) &d[d.size() - vl], vl);
				bool f = false;
				for (auto &r : b->revs) if (r.cv == name) { RevS &s = rv[r.id]; s.has_id = true; s.state_id = r.id; char c = val.empty() ? 0 : val[0]; s.value = c == '0' ? BIDIB_REV_EXEC_STATE_OFF : c == '3' ? BIDIB_REV_EXEC_STATE_ON : BIDIB_REV_EXEC_STATE_UNKNOWN; f = true; break; }
				if (!f) unknown_targets++;
				break;
			}
			default: break;
		}
	}

	// node new / lost notices (connectivity)
	void apply_topology(const ref::Msg &m) {
		if ((m.type != MSG_NODE_NEW && m.type != MSG_NODE_LOST) || m.data.size() < 9) return;
		const cfg::Board *b = nullptr; for (auto &x : w.boards) if (!memcmp(x.uid, &m.data[2], 7)) b = &x;
		if (!b) { unknown_targets++; return; }
		Conn &c = conn[b->id];
		if (m.type == MSG_NODE_NEW) { c.connected = true; c.addr = m.addr; c.addr.push_back(m.data[1]); }
		else {
			c.connected = false;
			// (an interface that has not been seen since the last reset has no address: nothing is known to be beneath it)
			if (b->is_iface() && !c.addr.empty()) for (auto &kv : conn) { if (kv.first == b->id) continue; const auto &a = kv.second.addr; if (a.size() > c.addr.size() && std::equal(c.addr.begin(), c.addr.end(), a.begin())) kv.second.connected = false; }
		}
	}

	// a downlink message that carries an optimistic state update (the user's own or the library's start-up / shutdown commands)
	void apply_downlink(const ref::Msg &m) {
		const std::vector<uint8_t> &d = m.data;
		if (m.type == MSG_CS_DRIVE && d.size() >= 9) { const cfg::Train *t = train_by_addr(d[0], d[1]); if (t) { int f[4] = {d[5], d[6], d[7], d[8]}; apply_drive(*t, d[3], d[4], f); } }
		else if (m.type == MSG_CS_ACCESSORY && d.size() >= 4) apply_dcc_accessory_cmd(m.addr, d[0], d[1], d[2], d[3]);
	}
	void set_dcc_state_id(const std::string &id, const std::string &aspect) { if (pd.count(id)) { pd[id].has_id = true; pd[id].state_id = aspect; } else if (sd.count(id)) { sd[id].has_id = true; sd[id].state_id = aspect; } }
	void request_reverser(const std::string &id) { if (rv.count(id)) rv[id].value = BIDIB_REV_EXEC_STATE_UNKNOWN; }

	// ---- canonical JSON (same shape as getters::track_state with masking)
	static J sid(bool has, const std::string &s) { return has ? J(s) : J("unknown"); }   // the getters report the text "unknown" while no aspect id is known
	static J power(bool k, bool o, long long c) { J j = J::obj(); j.set("known", k); if (k) j.set("over", o); if (k && !o) j.set("current", c); return j; }
	J to_json() const {
		J j = J::obj();
		auto bacc = [&](const std::vector<std::string> &ord, const std::map<std::string, BoardAccS> &m) { J a = J::obj(); for (auto &id : ord) { const BoardAccS &s = m.at(id); J o = J::obj(); o.set("state_id", sid(s.has_id, s.state_id)); o.set("value", s.value); o.set("exec", s.exec); o.set("wait", s.wait); a.set(id, o); } return a; };
		auto dacc = [&](const std::vector<std::string> &ord, const std::map<std::string, DccAccS> &m) { J a = J::obj(); for (auto &id : ord) { const DccAccS &s = m.at(id); J o = J::obj(); o.set("state_id", sid(s.has_id, s.state_id)); o.set("value", s.value); o.set("coil_on", s.coil_on); o.set("oct", s.oct); o.set("ack", s.ack); o.set("unit", s.unit); o.set("time", s.time); a.set(id, o); } return a; };
		j.set("points_board", bacc(order_pb, pb)); j.set("points_dcc", dacc(order_pd, pd)); j.set("signals_board", bacc(order_sb, sb)); j.set("signals_dcc", dacc(order_sd, sd));
		{ J a = J::obj(); for (auto &id : order_pe) { const PeriphS &s = pe.at(id); J o = J::obj(); o.set("state_id", sid(s.has_id, s.state_id)); o.set("value", s.value); o.set("unit", s.unit); o.set("wait", s.wait); a.set(id, o); } j.set("peripherals", a); }
		{ J a = J::obj(); for (auto &id : order_sg) { const SegS &s = sg.at(id); J o = J::obj(); o.set("occ", s.occ); J c = J::arr(); c.push(s.cv); c.push(s.fr); c.push(s.ns); o.set("conf", c); o.set("power", power(s.pk, s.po, s.pc)); J ad = J::arr(); for (auto &x : s.addrs) { J e = J::arr(); e.push((int) x[0]); e.push((int) x[1]); e.push((int) x[2]); ad.push(e); } o.set("addrs", ad); a.set(id, o); } j.set("segments", a); }
		{ J a = J::obj(); for (auto &id : order_rv) { const RevS &s = rv.at(id); J o = J::obj(); o.set("state_id", sid(s.has_id, s.state_id)); o.set("value", s.value); a.set(id, o); } j.set("reversers", a); }
		{ J a = J::obj(); for (auto &id : order_tr) a.set(id, train_json(id)); j.set("trains", a); }
		{ J a = J::obj(); for (auto &id : order_bo) a.set(id, booster_json(id)); j.set("boosters", a); }
		{ J a = J::obj(); for (auto &id : order_to) { J o = J::obj(); o.set("cs", to.at(id)); a.set(id, o); } j.set("track_outputs", a); }
		return j;
	}
	J train_json(const std::string &id) const {
		const TrainS &s = tr.at(id); const cfg::Train *t = w.train(id);
		J o = J::obj(); o.set("on_track", s.on_track); if (s.on_track) o.set("orient", s.orient); o.set("speed", s.speed); o.set("fwd", s.fwd); o.set("ack", s.ack); o.set("kmh", s.kmh);
		J p = J::arr(); for (auto &tp : t->periphs) { J e = J::arr(); e.push(tp.id); e.push(s.periph.at(tp.id)); p.push(e); } o.set("periph", p);
		J dc = J::obj(); dc.set("sq_known", s.sqk); if (s.sqk) dc.set("sq", s.sq); dc.set("temp_known", s.tk); if (s.tk) dc.set("temp", s.t); dc.set("es_known", s.ek); if (s.ek) dc.set("es", s.es);
		dc.set("c2_known", s.c2k); if (s.c2k) dc.set("c2", s.c2); dc.set("c3_known", s.c3k); if (s.c3k) dc.set("c3", s.c3); o.set("decoder", dc);
		return o;
	}
	J booster_json(const std::string &id) const {
		const BoostS &s = bo.at(id); J o = J::obj(); o.set("state", s.state); o.set("simple", s.simple); o.set("power", power(s.pk, s.po, s.pc));
		o.set("v_known", s.vk); if (s.vk) o.set("v", s.v); o.set("t_known", s.tk); if (s.tk) o.set("t", s.t); return o;
	}
};

// first difference between two canonical JSON values (path + values), empty when equal
inline std::string diff(const J &a, const J &b, const std::string &path = "") {
	if (a.t != b.t) return path + ": " + a.dump() + " vs " + b.dump();
	if (a.t == J::OBJ) {
		for (auto &kv : a.o) { const J *o = b.find(kv.first); if (!o) return path + "/" + kv.first + ": missing on the right"; std::string d = diff(kv.second, *o, path + "/" + kv.first); if (!d.empty()) return d; }
		for (auto &kv : b.o) if (!a.find(kv.first)) return path + "/" + kv.first + ": missing on the left";
		return "";
	}
	if (a.t == J::ARR) {
		if (a.a.size() != b.a.size()) return path + ": " + a.dump() + " vs " + b.dump();
		for (size_t i = 0; i < a.a.size(); i++) { std::string d = diff(a.a[i], b.a[i], path + "[" + std::to_string(i) + "]"); if (!d.empty()) return d; }
		return "";
	}
	if (a.dump() != b.dump()) return path + ": " + a.dump() + " vs " + b.dump();
	return "";
}

}  // namespace sm

// C12 — no received byte stream causes out-of-bounds access, a crash or a stuck receiver.
#include "common.h"
#include "cfggen.h"
#include "apiops.h"

namespace {

struct C12 : Prop {
	const char *id() const override { return "C12"; }
	std::string rule() const override {
		return "plan = hostile uplink byte streams in debug and normal mode (against generated configurations): (1) random bytes, (2) mutations of valid "
		       "traffic (flip/drop/insert/truncate/extra delimiter, unterminated frames > 256 bytes), (3) grammar-generated CRC-VALID packets with "
		       "adversarial content (length byte larger/smaller than the frame, length 0, 0-6 address bytes without terminator, every type code with "
		       "0..n data bytes, out-of-range field values), arbitrary chunking; then two known-good probe packets. Oracle: no ASan/UBSan report or signal; "
		       "the second probe is processed within 200 simulated ms. non-trivial = stream contained >=1 CRC-valid adversarial packet or an oversized frame; "
		       "distinct = (plan-shape, trace hash).";
	}

	static std::vector<uint8_t> adversarial_payload(Rng &r, bool normal, const std::vector<std::vector<uint8_t>> &addrs) {
		std::vector<uint8_t> p;
		int nm = (int) r.range(1, 3);
		// one time in twelve: a single message close to the protocol maximum (the whole packet just fits the 256-byte receive buffer)
		bool huge = r.chance(85);
		if (huge) nm = 1;
		for (int k = 0; k < nm; k++) {
			std::vector<uint8_t> m;
			// address part
			std::vector<uint8_t> ad;
			uint64_t x = r.below(100);
			if (x < 50 && !addrs.empty()) ad = addrs[r.below(addrs.size())];
			else { size_t n = (size_t) r.below(7); for (size_t i = 0; i < n; i++) ad.push_back((uint8_t) r.range(1, 255)); }
			bool term = !r.chance(120);
			uint8_t seq = r.chance(500) ? 0 : r.byte();
			uint8_t type;
			if (normal && r.chance(750)) {
				static const uint8_t handled[] = {MSG_PKT_CAPACITY, MSG_NODE_LOST, MSG_NODE_NEW, MSG_STALL, MSG_CS_STATE, MSG_CS_DRIVE_ACK, MSG_CS_ACCESSORY_ACK,
				                                  MSG_CS_DRIVE_MANUAL, MSG_CS_ACCESSORY_MANUAL, MSG_LC_STAT, MSG_LC_WAIT, MSG_BM_OCC, MSG_BM_FREE, MSG_BM_MULTIPLE,
				                                  MSG_BM_CONFIDENCE, MSG_BM_ADDRESS, MSG_BM_CURRENT, MSG_BM_SPEED, MSG_BM_DYN_STATE, MSG_BOOST_DIAGNOSTIC,
				                                  MSG_ACCESSORY_STATE, MSG_ACCESSORY_NOTIFY, MSG_BOOST_STAT, MSG_CS_DRIVE_EVENT, MSG_SYS_ERROR, MSG_BM_POSITION,
				                                  MSG_VENDOR, MSG_SYS_MAGIC, MSG_NODETAB, MSG_NODETAB_COUNT, MSG_FEATURE, MSG_NODE_NA};
				type = handled[r.below(sizeof handled)];
			} else type = r.byte();
			std::vector<uint8_t> data;
			size_t dl = r.chance(150) ? (size_t) r.range(10, 40) : (size_t) r.below(10);
			if (huge) { if (ad.size() > 3) ad.resize(3); term = true; dl = (size_t) r.range(150, 251 - (long) ad.size()); }
			for (size_t i = 0; i < dl; i++) data.push_back(r.chance(300) ? cat::edge_byte(r) : (uint8_t) r.below(r.chance(500) ? 8 : 256));
			m.push_back(0);
			for (uint8_t a : ad) m.push_back(a);
			if (term) m.push_back(0);
			m.push_back(seq); m.push_back(type);
			m.insert(m.end(), data.begin(), data.end());
			// length byte: right, too large, too small, zero
			uint64_t y = r.below(100);
			size_t real = m.size() - 1;
			if (y < 55 || (huge && y < 90)) m[0] = (uint8_t) real;
			else if (y < 70) m[0] = (uint8_t) std::min<size_t>(255, real + (size_t) r.range(1, 200));
			else if (y < 85) m[0] = (uint8_t) (real ? r.below(real) : 0);
			else if (y < 92) m[0] = 0;
			else m[0] = r.byte();
			p.insert(p.end(), m.begin(), m.end());
		}
		return p;
	}

	J generate(Rng &r, const std::string &tier, uint64_t) override {
		bool thorough = tier == "thorough";
		J plan = J::obj();
		bool normal = r.chance(550);
		cfg::World w;
		std::vector<std::vector<uint8_t>> addrs;
		J se;
		if (normal) {
			w = cfg::gen_world(r, thorough ? 4 : 3, 3);
			// (Secure-ACK boards are frequent: their reports make the receiver transmit on its own while the application reads)
			for (auto &b : w.boards) { bool has = false; for (auto &f : b.features) if (f.first == 0x03) has = true; if (!has && r.chance(500)) b.features.push_back({0x03, (uint8_t) r.range(1, 200)}); }
			cfg::install(plan, w, r);
			se = cfg::normal_session(0, 0);
			for (auto &b : w.boards) if (b.present) addrs.push_back(b.addr);
			addrs.push_back({});
		} else {
			J bus = J::obj(); bus.set("nodes", J::arr()); bus.set("auto_answer", false);
			plan.set("bus", bus);
			se = pc::debug_session(0);
			addrs.push_back({}); addrs.push_back({1}); addrs.push_back({1, 2}); addrs.push_back({3, 1, 4});
		}
		plan.set("normal", normal);
		J phs = J::arr();
		int rounds = (int) r.range(1, thorough ? 4 : 2);
		for (int rd = 0; rd < rounds; rd++) {
			// normal mode, one round in six starts with a "capacity dance": the interface announces a large packet capacity, the application batches
			// unanswered messages without flushing, the interface announces a smaller capacity than what is batched (restart / replaced interface /
			// damaged byte that passes the CRC): the receiver must come back from the handler
			if (normal && r.chance(170)) {
				J ph = J::obj(); J ev = J::arr();
				auto cap = [&](int at, int v) { ref::Msg m; m.seq = 0; m.type = MSG_PKT_CAPACITY; m.data = {(uint8_t) v}; J e = J::obj(); e.set("at_us", at); e.set("raw", hex_of(ref::frame_msgs({m}))); e.set("inj", "capacity-change"); ev.push(e); };
				cap(0, (int) r.range(100, 255)); cap(15000, (int) r.range(0, 70));
				if (r.coin()) cap(25000, (int) r.range(64, 255));
				ph.set("bus", ev); ph.set("adv", false);
				J ops = J::arr();
				{ J sl = J::obj(); sl.set("op", "sleep"); sl.set("us", 10000); ops.push(sl); }
				for (int i = 0, no = (int) r.range(8, 30); i < no; i++) { J o = J::obj(); o.set("op", "ll"); o.set("fn", "bm_mirror_occ"); o.set("node", pc::jnode3(addrs[r.below(addrs.size())])); char h[4]; snprintf(h, sizeof h, "%02x", (unsigned) r.below(128)); o.set("a", h); ops.push(o); }
				J tasks = J::arr(); tasks.push(ops); ph.set("tasks", tasks);
				J post = J::arr(); post.push("quiesce_noflush"); ph.set("post", post);
				phs.push(ph);
			}
			// one round in sixteen starts with a burst of well-formed reports that nobody reads meanwhile (more than the queues hold)
			if (r.chance(60)) {
				J ph = J::obj(); J ev = J::arr(); int t0 = 0;
				for (int k = 0, nb = (int) r.range(129, 200); k < nb; k++) {
					ref::Msg m; m.addr = addrs[r.below(addrs.size())]; m.seq = 0; m.type = r.coin() ? MSG_SYS_PONG : MSG_SYS_ERROR; m.data = m.type == MSG_SYS_PONG ? std::vector<uint8_t>{(uint8_t) k} : std::vector<uint8_t>{0x01, (uint8_t) k};
					J e = J::obj(); t0 += (int) r.range(0, 1500); e.set("at_us", t0); e.set("raw", hex_of(ref::frame_msgs({m}))); e.set("inj", "unread-burst"); ev.push(e);
				}
				ph.set("bus", ev); ph.set("adv", false);
				J post = J::arr(); post.push("quiesce_noflush"); ph.set("post", post);
				phs.push(ph);
			}
			J ph = J::obj(); J ev = J::arr();
			int n = (int) r.range(1, thorough ? 25 : 12);
			int t = 0;
			bool adv = false;
			for (int k = 0; k < n; k++) {
				std::vector<uint8_t> bytes;
				const char *inj = "adversarial-crc-valid-packet";
				uint64_t x = r.below(100);
				if (x < 15) {
					inj = "line-noise";
					size_t len = (size_t) r.range(1, r.chance(150) ? 700 : 60);
					bool no_delim = r.chance(300);
					for (size_t i = 0; i < len; i++) { uint8_t b = r.byte(); if (no_delim && b == 0xFE) b = 0x11; bytes.push_back(b); }
					if (len > 256 && no_delim) adv = true;
				} else if (x < 35) {
					// mutated valid packet
					std::vector<ref::Msg> ms;
					ref::Msg m; m.addr = addrs[r.below(addrs.size())]; m.seq = r.byte(); m.type = (uint8_t) (0x80 | r.below(128));
					for (size_t i = 0, dl = (size_t) r.below(12); i < dl; i++) m.data.push_back(r.byte());
					ms.push_back(m);
					bytes = ref::frame_msgs(ms);
					size_t pos = 1 + (size_t) r.below(bytes.size() - 2);
					switch (r.below(5)) {
						case 0: bytes[pos] ^= (uint8_t) (1u << r.below(8)); inj = "bit-flip"; break;
						case 1: bytes.erase(bytes.begin() + (long) pos); inj = "byte-dropped"; break;
						case 2: bytes.insert(bytes.begin() + (long) pos, r.byte()); inj = "byte-inserted"; break;
						case 3: bytes.resize(pos); inj = "truncated"; break;
						case 4: bytes.insert(bytes.begin() + (long) pos, 0xFE); inj = "stray-delimiter"; break;
					}
				} else if (normal && x >= 42 && x < 52 && !w.boards.empty()) {
					// a well-formed message for existing equipment with unusual but legal field values (error flags, aspects the configuration
					// does not name, empty / repeated address lists ...): out-of-range field values in otherwise perfectly valid traffic
					J ev1 = api::uplink_event(r, w, 0);
					ref::Msg m; m.addr = j_bytes(ev1["node"]); m.seq = r.chance(500) ? 0 : r.byte(); m.type = (uint8_t) ev1.geti("type"); m.data = j_bytes(ev1["data"]);
					// (one in six: an accessory of a configured board reports an error state with an aspect the configuration may not name)
					if (r.chance(170)) for (auto &b : w.boards) if (b.present && !(b.points_board.empty() && b.signals_board.empty())) {
						const cfg::BoardAcc &a = !b.points_board.empty() ? b.points_board[r.below(b.points_board.size())] : b.signals_board[r.below(b.signals_board.size())];
						m.addr = b.addr; m.type = r.chance(800) ? MSG_ACCESSORY_STATE : MSG_ACCESSORY_NOTIFY; m.data = {a.number, r.byte(), (uint8_t) r.range(1, 8), (uint8_t) (r.coin() ? 0x80 : 0x81 + r.below(3)), r.byte()}; break; }
					bytes = ref::frame_msgs({m}); adv = true; inj = "valid-message-unusual-field-values";
				} else if (normal && x >= 52 && x < 57) {
					// a position report from a Secure-ACK board (the receiver answers it itself while the application may be reading the queue)
					std::vector<const cfg::Board *> sa; for (auto &b : w.boards) if (b.present && b.secack()) sa.push_back(&b);
					ref::Msg m; m.seq = r.chance(500) ? 0 : r.byte(); m.type = MSG_BM_POSITION; m.data = {r.byte(), r.byte(), r.byte(), r.byte(), r.byte()};
					m.addr = sa.empty() ? addrs[r.below(addrs.size())] : sa[r.below(sa.size())]->addr;
					bytes = ref::frame_msgs({m}); adv = true; inj = "valid-message-unusual-field-values";
				} else if (x < 42) {
					// oversized CRC-valid frame
					std::vector<uint8_t> p;
					size_t len = (size_t) r.range(250, 600);
					for (size_t i = 0; i < len; i++) p.push_back((uint8_t) r.range(1, 250));
					bytes = ref::frame(p); adv = true; inj = "oversized-frame";
				} else {
					bytes = ref::frame(adversarial_payload(r, normal, addrs)); adv = true;
				}
				J e = J::obj();
				t += (int) r.range(0, 3000);
				e.set("at_us", t); e.set("raw", hex_of(bytes)); e.set("inj", inj);
				if (r.chance(250)) e.set("gap_us", (int) r.range(1, 2000));
				if (r.chance(250) && bytes.size() > 1) { e.set("split_at", (int) r.below(bytes.size())); e.set("split_gap_us", (int) r.range(1000, 20000)); }
				ev.push(e);
			}
			ph.set("bus", ev); ph.set("adv", adv);
			// the application keeps working meanwhile (train commands write-lock the train table, getters read everything): whatever arrives,
			// neither the receiver nor an application call may end up blocked for good
			if (normal && r.chance(400)) {
				api::Ids ids = api::collect(w);
				J tasks = J::arr();
				for (int q = 0, nt = (int) r.range(1, 2); q < nt; q++) {
					J ops = J::arr();
					for (int i = 0, no = (int) r.range(3, 14); i < no; i++) {
						uint64_t y = r.below(100);
						if (y < 50 && !w.trains.empty() && !ids.tos.empty()) {
							J o = J::obj(); o.set("op", "hl"); J sv = J::arr(); J iv = J::arr(); const cfg::Train &t = w.trains[r.below(w.trains.size())];
							sv.push(t.id);
							if (!t.periphs.empty() && r.coin()) { o.set("fn", "set_train_peripheral"); sv.push(t.periphs[r.below(t.periphs.size())].id); sv.push(ids.tos[r.below(ids.tos.size())]); iv.push((int) r.below(2)); }
							else { o.set("fn", "set_train_speed"); sv.push(ids.tos[r.below(ids.tos.size())]); iv.push((int) r.range(-126, 126)); }
							o.set("s", sv); o.set("i", iv); ops.push(o);
						} else if (y < 70) ops.push(api::get_op(r, ids, w));
						else if (y < 80) { J rd = J::obj(); rd.set("op", r.coin() ? "read_err" : "read"); ops.push(rd); }
						else { J sl = J::obj(); sl.set("op", "sleep"); sl.set("us", 5000); ops.push(sl); }
					}
					tasks.push(ops);
				}
				ph.set("tasks", tasks);
			}
			J post = J::arr(); post.push("quiesce_noflush"); ph.set("post", post);
			phs.push(ph);
			// drain, then probes
			J pp = J::obj(); J pre = J::arr();
			for (const char *q : {"read", "read_err"}) { J d = J::obj(); d.set("op", "drain"); d.set("q", q); pre.push(d); }
			if (normal) { J d = J::obj(); d.set("op", "drain"); d.set("q", "read_intern"); pre.push(d); }
			pp.set("pre", pre);
			J pev = J::arr();
			for (int i = 0; i < 2; i++) {
				ref::Msg m; m.seq = 0; m.type = MSG_SYS_PONG; m.data = {(uint8_t) (0xA0 + rd), (uint8_t) (0x51 + i)};
				J e = J::obj(); e.set("at_us", 1000 + i * 20000); e.set("raw", hex_of(ref::frame_msgs({m}))); e.set("tag", 900 + i);
				pev.push(e);
			}
			pp.set("bus", pev); pp.set("probe_round", rd);
			J post2 = J::arr(); post2.push("quiesce_noflush"); pp.set("post", post2);
			phs.push(pp);
			J rp = J::obj(); J pre2 = J::arr();
			{ J d = J::obj(); d.set("op", "drain"); d.set("q", "read"); pre2.push(d); }
			{ J d = J::obj(); d.set("op", "drain"); d.set("q", "read_err"); pre2.push(d); }
			rp.set("pre", pre2); rp.set("check_probe", rd);
			J post3 = J::arr(); post3.push("quiesce_noflush"); rp.set("post", post3);
			phs.push(rp);
		}
		se.set("phases", phs);
		J ss = J::arr(); ss.push(se); plan.set("sessions", ss);
		{ J sc = sched_json(r, tier, 1, false); cfg::starve_after_startup(sc, r); plan.set("sched", sc); }
		return plan;
	}

	std::set<int> probes_seen;
	uint64_t probe_delivered_time = 0;
	bool any_adv = false;
	uint64_t oversized = 0;

	// the library's GLib containers are watched by the lockset monitor while the session runs (queues are appended by the receiver and read by
	// the application: one lock must cover both)
	void on_session_start(Engine &, int, int ret) override { sim::lockset_arm(ret == 0); }
	void before_stop(Engine &, int) override { sim::lockset_arm(false); }
	void attach(Engine &e) override {
		sim::lockset_arm(false); sim::lockset_reset_counters();
		probes_seen.clear(); any_adv = false; oversized = 0;
		e.bus.on_delivered = [this](bus::UpFrame &f) { if (f.tag == 901) probe_delivered_time = f.last_read_time; };
	}
	void after_op(Engine &, OpRec &o) override {
		if (o.op->gets("op") == "read" && o.has_bytes && o.bytes.size() == 6 && o.bytes[3] == MSG_SYS_PONG && o.bytes[5] == 0x52) probes_seen.insert(o.bytes[4] - 0xA0);
	}
	void at_quiescence(Engine &e, int s, int p) override {
		const J &ph = e.plan["sessions"][(size_t) s]["phases"][(size_t) p];
		if (ph.getb("adv")) any_adv = true;
		if (ph.has("check_probe")) {
			int rd = (int) ph.geti("check_probe");
			if (!probes_seen.count(rd))
				e.violate("RECEIVER_STUCK", "probe after hostile input", "the second known-good packet sent after the hostile stream of round " + std::to_string(rd) + " was not processed (not returned by bidib_read_message)");
		}
	}
	void coverage(Engine &e, J &f) override {
		f.set("nontrivial", any_adv);
		f.set("shape", (long long) (pc::shape_hash(e.plan) >> 1));
		J p = J::obj(); p.set("normal_mode_runs", e.plan.getb("normal") ? 1 : 0); p.set("debug_mode_runs", e.plan.getb("normal") ? 0 : 1);
		p.set("probe_rounds_passed", (long long) probes_seen.size());
		f.set("probes", p);
	}
};

}  // namespace

Prop *make_c12() { return new C12(); }

// Generated configurations ("world"): boards/accessories/peripherals/segments/reversers/trains,
// their YAML files, the matching SimBus node tree, and JSON (de)serialisation so that oracles can
// rebuild the world from the plan alone (replay files are self-contained).
#pragma once
#include "common.h"

namespace cfg {

struct Aspect { std::string id; uint8_t value; };
struct DccPortVal { uint8_t port, value; };
struct DccAspect { std::string id; std::vector<DccPortVal> ports; };
struct BoardAcc { std::string id; uint8_t number = 0; std::vector<Aspect> aspects; std::string initial; };
struct DccAcc { std::string id; uint8_t addrl = 0, addrh = 0, extended = 0; std::vector<DccAspect> aspects; std::string initial; };
struct Periph { std::string id; uint8_t number = 0, port0 = 0, port1 = 0; std::vector<Aspect> aspects; std::string initial; };
struct Segment { std::string id; uint8_t addr = 0; };
struct Reverser { std::string id; std::string cv; };
struct Board {
	std::string id; uint8_t uid[7] = {0};
	std::vector<std::pair<uint8_t, uint8_t>> features;
	std::vector<BoardAcc> points_board, signals_board;
	std::vector<DccAcc> points_dcc, signals_dcc;
	std::vector<Periph> periphs; std::vector<Segment> segs; std::vector<Reverser> revs;
	bool present = true;                 // in the node tree at start
	std::vector<uint8_t> addr;           // address in the tree (valid if present or re-login target)
	std::map<uint8_t, uint8_t> override; // feature answers that differ from the request
	bool secack() const { for (auto &f : features) if (f.first == 0x03 && f.second > 0) return true; return false; }
	bool is_iface() const { return uid[0] & 0x80; }
	bool track_output() const { return uid[0] & 0x10; }
	bool booster() const { return uid[0] & 0x02; }
};
struct TrainPeriph { std::string id; uint8_t bit = 0; int initial = -1; };
struct Train { std::string id; uint8_t addrl = 0, addrh = 0; int steps = 126; std::vector<int> calibration; std::vector<TrainPeriph> periphs; };
struct Unknown { std::vector<uint8_t> addr; uint8_t uid[7]; };
struct World {
	std::vector<Board> boards; std::vector<Train> trains; std::vector<Unknown> unknown;
	bool iface_configured = true;
	const Board *board(const std::string &id) const { for (auto &b : boards) if (b.id == id) return &b; return nullptr; }
	Board *board(const std::string &id) { for (auto &b : boards) if (b.id == id) return &b; return nullptr; }
	const Train *train(const std::string &id) const { for (auto &t : trains) if (t.id == id) return &t; return nullptr; }
};

inline std::string hx(uint8_t v) { char b[8]; snprintf(b, sizeof b, "0x%02X", v); return b; }
inline std::string hx2(uint8_t h, uint8_t l) { char b[12]; snprintf(b, sizeof b, "0x%02X%02X", h, l); return b; }

inline std::string board_yaml(const World &w) {
	std::string s = w.boards.empty() ? "# generated\nboards: []\n" : "# generated\nboards:\n";
	for (auto &b : w.boards) {
		s += "  - id: " + b.id + "\n    unique-id: 0x" ; { char t[20]; for (int i = 0; i < 7; i++) { snprintf(t, sizeof t, "%02X", b.uid[i]); s += t; } } s += "\n";
		if (!b.features.empty()) {
			s += "    features:\n";
			for (auto &f : b.features) s += "      - number: " + hx(f.first) + "\n        value: " + hx(f.second) + "\n";
		}
	}
	return s;
}
inline void aspects_yaml(std::string &s, const std::vector<Aspect> &as) {
	s += "        aspects:\n";
	for (auto &a : as) s += "          - id: " + a.id + "\n            value: " + hx(a.value) + "\n";
}
inline std::string track_yaml(const World &w) {
	std::string s = "# generated\nboards:\n";
	bool any = false;
	for (auto &b : w.boards) if (!(b.points_board.empty() && b.points_dcc.empty() && b.signals_board.empty() && b.signals_dcc.empty() && b.periphs.empty() && b.segs.empty() && b.revs.empty())) any = true;
	if (!any) return "# generated\nboards: []\n";
	for (auto &b : w.boards) {
		if (b.points_board.empty() && b.points_dcc.empty() && b.signals_board.empty() && b.signals_dcc.empty() && b.periphs.empty() && b.segs.empty() && b.revs.empty()) continue;
		s += "  - id: " + b.id + "\n";
		auto bacc = [&](const char *key, const std::vector<BoardAcc> &v) {
			if (v.empty()) return;
			s += std::string("    ") + key + ":\n";
			for (auto &a : v) {
				s += "      - id: " + a.id + "\n        number: " + hx(a.number) + "\n";
				aspects_yaml(s, a.aspects);
				if (!a.initial.empty()) s += "        initial: " + a.initial + "\n";
			}
		};
		auto dacc = [&](const char *key, const std::vector<DccAcc> &v) {
			if (v.empty()) return;
			s += std::string("    ") + key + ":\n";
			for (auto &a : v) {
				s += "      - id: " + a.id + "\n        dcc-address: " + hx2(a.addrh, a.addrl) + "\n        extended: " + hx(a.extended) + "\n        aspects:\n";
				for (auto &as : a.aspects) {
					s += "          - id: " + as.id + "\n            ports:\n";
					for (auto &p : as.ports) s += "              - port: " + hx(p.port) + "\n                value: " + hx(p.value) + "\n";
				}
				if (!a.initial.empty()) s += "        initial: " + a.initial + "\n";
			}
		};
		bacc("points-board", b.points_board); dacc("points-dcc", b.points_dcc);
		bacc("signals-board", b.signals_board); dacc("signals-dcc", b.signals_dcc);
		if (!b.periphs.empty()) {
			s += "    peripherals:\n";
			for (auto &p : b.periphs) {
				s += "      - id: " + p.id + "\n        number: " + hx(p.number) + "\n        port: " + hx2(p.port1, p.port0) + "\n";
				aspects_yaml(s, p.aspects);
				if (!p.initial.empty()) s += "        initial: " + p.initial + "\n";
			}
		}
		if (!b.segs.empty()) {
			s += "    segments:\n";
			for (auto &g : b.segs) s += "      - id: " + g.id + "\n        address: " + hx(g.addr) + "\n        length: 10.0cm\n";
		}
		if (!b.revs.empty()) {
			s += "    reversers:\n";
			for (auto &g : b.revs) s += "      - id: " + g.id + "\n        cv: " + g.cv + "\n";
		}
	}
	return s;
}
inline std::string train_yaml(const World &w) {
	std::string s = "# generated\ntrains:\n";
	if (w.trains.empty()) return "# generated\ntrains: []\n";
	for (auto &t : w.trains) {
		s += "  - id: " + t.id + "\n    dcc-address: " + hx2(t.addrh, t.addrl) + "\n    dcc-speed-steps: " + std::to_string(t.steps) + "\n";
		if (!t.calibration.empty()) { s += "    calibration:\n"; for (int c : t.calibration) s += "      - " + std::to_string(c) + "\n"; }
		if (!t.periphs.empty()) {
			s += "    peripherals:\n";
			for (auto &p : t.periphs) { s += "      - id: " + p.id + "\n        bit: " + std::to_string(p.bit) + "\n"; if (p.initial >= 0) s += "        initial: " + std::to_string(p.initial) + "\n"; }
		}
	}
	return s;
}

// ---------------------------------------------------------------- generation
struct GenOpts { int max_boards = 4, max_trains = 3; bool allow_absent = true, allow_unknown = true, want_initial = true, want_features = true; int max_depth = 3; };

// aspect ids: either independent names or (one time in three) a chain in which every id is a prefix of the next one, listed in
// random order ("go", "go_slow", "go_slow_x"): id lookups that compare only a prefix pick the wrong aspect there
inline std::vector<std::string> gen_aspect_ids(Rng &r, const std::string &pfx, int n) {
	std::vector<std::string> ids;
	if (n > 1 && r.chance(330)) {
		std::string cur = pfx + "a";
		for (int i = 0; i < n; i++) { ids.push_back(cur); cur += (i % 2 ? "_x" : "0"); }
		for (int i = n - 1; i > 0; i--) std::swap(ids[(size_t) i], ids[r.below((uint64_t) i + 1)]);
	} else for (int i = 0; i < n; i++) ids.push_back(pfx + "a" + std::to_string(i));
	return ids;
}
inline std::vector<Aspect> gen_aspects(Rng &r, const std::string &pfx) {
	std::vector<Aspect> v; int n = (int) r.range(1, 4);
	std::set<int> used;
	std::vector<std::string> ids = gen_aspect_ids(r, pfx, n);
	for (int i = 0; i < n; i++) { int val; do { val = (int) r.range(0, r.chance(100) ? 127 : 5); } while (used.count(val)); used.insert(val); v.push_back({ids[(size_t) i], (uint8_t) val}); }
	return v;
}

inline World gen_world(Rng &r, const GenOpts &o) {
	World w;
	int nb = (int) r.range(1, o.max_boards);
	std::set<int> dcc_used;
	auto new_dcc = [&](uint8_t &l, uint8_t &h) { int v; do { v = (int) r.range(1, r.chance(200) ? 0x27FF : 300); } while (dcc_used.count(v)); dcc_used.insert(v); l = (uint8_t) (v & 0xFF); h = (uint8_t) (v >> 8); };
	// tree shape: node 0 is the interface
	struct TN { std::vector<uint8_t> addr; bool iface; };
	std::vector<TN> tn; tn.push_back({{}, true});
	int tree_nodes = nb + (o.allow_unknown && r.chance(400) ? (int) r.range(1, 2) : 0);
	for (int i = 1; i < tree_nodes + 1; i++) {
		std::vector<size_t> cands;
		for (size_t k = 0; k < tn.size(); k++) if (tn[k].iface && (int) tn[k].addr.size() < o.max_depth) cands.push_back(k);
		size_t p = cands[r.below(cands.size())];
		TN c; c.addr = tn[p].addr;
		uint8_t local;
		for (;;) { local = (uint8_t) r.range(1, r.chance(100) ? 255 : 8); bool used = false; for (auto &x : tn) if (x.addr.size() == c.addr.size() + 1 && std::equal(c.addr.begin(), c.addr.end(), x.addr.begin()) && x.addr.back() == local) used = true; if (!used) break; }
		c.addr.push_back(local);
		c.iface = (int) c.addr.size() < o.max_depth && r.chance(350);
		tn.push_back(c);
	}
	// which tree nodes are configured boards
	std::vector<size_t> slots;
	for (size_t i = 0; i < tn.size(); i++) slots.push_back(i);
	w.iface_configured = r.chance(800);
	int serial = 0;
	auto mk_uid = [&](uint8_t *u, bool iface, uint8_t cls) { u[0] = (uint8_t) ((cls & 0x7F) | (iface ? 0x80 : 0)); u[1] = 0x00; u[2] = 0x0D; u[3] = r.byte(); u[4] = r.byte(); u[5] = (uint8_t) serial; u[6] = (uint8_t) (0xE0 + serial); serial++; };
	static const uint8_t classes[] = {0x52, 0x12, 0x10, 0x42, 0x45, 0x05, 0x40, 0x02, 0x04, 0x5A};
	std::vector<bool> taken(tn.size(), false);
	for (int i = 0; i < nb; i++) {
		Board b;
		b.id = "b" + std::to_string(i);
		bool absent = o.allow_absent && i > 0 && r.chance(200);
		size_t slot = (size_t) -1;
		if (!absent) {
			if (i == 0 && w.iface_configured) slot = 0;
			else { std::vector<size_t> fr; for (size_t k = 1; k < tn.size(); k++) if (!taken[k]) fr.push_back(k); if (fr.empty()) absent = true; else slot = fr[r.below(fr.size())]; }
		}
		uint8_t cls = classes[r.below(10)];
		if (i == 0) cls |= 0x10;   // make sure there is at least one (potential) track output
		if (!absent) { taken[slot] = true; b.addr = tn[slot].addr; mk_uid(b.uid, tn[slot].iface, cls); b.present = true; }
		else { mk_uid(b.uid, r.chance(200), cls); b.present = false; b.addr = {(uint8_t) (100 + i)}; }
		if (o.want_features && r.chance(600)) {
			int nf = (int) r.range(1, 3); std::set<int> fu;
			for (int k = 0; k < nf; k++) {
				int num = r.chance(400) ? 0x03 : (int) r.range(0, 110);
				if (fu.count(num)) continue; fu.insert(num);
				b.features.push_back({(uint8_t) num, (uint8_t) (r.chance(300) ? 0 : r.range(1, 255))});
				if (r.chance(150)) b.override[(uint8_t) num] = r.byte();
			}
		}
		std::set<int> nums, ports, segaddrs;
		// (number 0x00 - the value of a zero-initialised partial record - is frequent on purpose)
		auto new_num = [&]() { int v; if (!nums.count(0) && r.chance(250)) v = 0; else do { v = (int) r.range(0, r.chance(100) ? 127 : 12); } while (nums.count(v)); nums.insert(v); return (uint8_t) v; };
		if (cls & 0x04 || r.chance(500)) {
			for (int k = 0, n = (int) r.below(3); k < n; k++) { BoardAcc a; a.id = b.id + "pb" + std::to_string(k); a.number = new_num(); a.aspects = gen_aspects(r, "p"); if (o.want_initial && r.chance(500)) a.initial = a.aspects[r.below(a.aspects.size())].id; b.points_board.push_back(a); }
			for (int k = 0, n = (int) r.below(3); k < n; k++) { BoardAcc a; a.id = b.id + "sb" + std::to_string(k); a.number = new_num(); a.aspects = gen_aspects(r, "s"); if (o.want_initial && r.chance(500)) a.initial = a.aspects[r.below(a.aspects.size())].id; b.signals_board.push_back(a); }
		}
		if (cls & 0x10) {
			auto mkd = [&](const std::string &id) {
				DccAcc a; a.id = id; new_dcc(a.addrl, a.addrh); a.extended = (uint8_t) r.below(2);
				// all aspects of one accessory drive the same ports with different value vectors (the parser rejects an aspect whose
				// port/value pairs are contained in another aspect's)
				int np = (int) r.range(1, 3);
				std::vector<int> ports; while ((int) ports.size() < np) { int pt = (int) r.range(0, 31); if (std::find(ports.begin(), ports.end(), pt) == ports.end()) ports.push_back(pt); }
				int na = (int) r.range(1, std::min(3, 1 << np));
				std::set<int> vecs;
				std::vector<std::string> dids = gen_aspect_ids(r, "d", na);
				for (int q = 0; q < na; q++) {
					int v; do { v = (int) r.below(1u << np); } while (vecs.count(v)); vecs.insert(v);
					DccAspect as; as.id = dids[(size_t) q];
					for (int z = 0; z < np; z++) as.ports.push_back({(uint8_t) ports[(size_t) z], (uint8_t) ((v >> z) & 1)});
					a.aspects.push_back(as);
				}
				if (o.want_initial && r.chance(500)) a.initial = a.aspects[r.below(a.aspects.size())].id;
				return a;
			};
			for (int k = 0, n = (int) r.below(3); k < n; k++) b.points_dcc.push_back(mkd(b.id + "pd" + std::to_string(k)));
			for (int k = 0, n = (int) r.below(2); k < n; k++) b.signals_dcc.push_back(mkd(b.id + "sd" + std::to_string(k)));
		}
		if (r.chance(500)) for (int k = 0, n = (int) r.range(1, 3); k < n; k++) {
			Periph p; p.id = b.id + "pe" + std::to_string(k); p.number = (uint8_t) k;
			int pv; do { pv = (int) r.range(0, r.chance(200) ? 0xFFFF : 40); } while (ports.count(pv)); ports.insert(pv);
			p.port0 = (uint8_t) (pv & 0xFF); p.port1 = (uint8_t) (pv >> 8);
			p.aspects = gen_aspects(r, "e"); if (o.want_initial && r.chance(500)) p.initial = p.aspects[r.below(p.aspects.size())].id;
			b.periphs.push_back(p);
		}
		if (cls & 0x40 || r.chance(400)) for (int k = 0, n = (int) r.range(1, 5); k < n; k++) {
			Segment g; g.id = b.id + "sg" + std::to_string(k); int a; do { a = (int) r.range(0, r.chance(150) ? 254 : 20); } while (segaddrs.count(a)); segaddrs.insert(a); g.addr = (uint8_t) a; b.segs.push_back(g);
		}
		if (r.chance(250)) for (int k = 0, n = (int) r.range(1, 2); k < n; k++) { Reverser g; g.id = b.id + "rv" + std::to_string(k); g.cv = std::to_string(30000 + (int) r.below(100) * 2 + k); b.revs.push_back(g); }
		w.boards.push_back(b);
	}
	// unknown nodes fill the remaining tree slots (children of unconfigured interfaces stay reachable)
	for (size_t k = 0; k < tn.size(); k++) if (!taken[k]) { Unknown u; u.addr = tn[k].addr; mk_uid(u.uid, tn[k].iface, classes[r.below(10)]); w.unknown.push_back(u); }
	int nt = (int) r.range(0, o.max_trains);
	for (int i = 0; i < nt; i++) {
		Train t; t.id = "t" + std::to_string(i); new_dcc(t.addrl, t.addrh);
		static const int steps[] = {14, 28, 126}; t.steps = steps[r.below(3)];
		if (r.chance(500)) { int v = 2; for (int k = 0; k < 9; k++) { v += (int) r.range(1, 13); t.calibration.push_back(std::min(v, 126)); } }
		std::set<int> bits;
		// (the train parser accepts a calibration block only when a peripherals block follows)
		for (int k = 0, n = std::max<int>((int) r.below(5), t.calibration.empty() ? 0 : 1); k < n; k++) { TrainPeriph p; p.id = "f" + std::to_string(k); int bt; do { bt = (int) r.range(0, 31); } while (bits.count(bt)); bits.insert(bt); p.bit = (uint8_t) bt; if (o.want_initial && r.chance(500)) p.initial = (int) r.below(2); t.periphs.push_back(p); }
		w.trains.push_back(t);
	}
	return w;
}
inline World gen_world(Rng &r, int max_boards, int max_trains) { GenOpts o; o.max_boards = max_boards; o.max_trains = max_trains; return gen_world(r, o); }

// ---------------------------------------------------------------- JSON
inline J aspects_j(const std::vector<Aspect> &v) { J a = J::arr(); for (auto &x : v) { J e = J::arr(); e.push(x.id); e.push((int) x.value); a.push(e); } return a; }
inline std::vector<Aspect> aspects_from(const J &a) { std::vector<Aspect> v; for (size_t i = 0; i < a.size(); i++) v.push_back({a[i][0].str(), (uint8_t) a[i][1].num()}); return v; }
inline J to_json(const World &w) {
	J j = J::obj(); J bs = J::arr();
	for (auto &b : w.boards) {
		J o = J::obj(); o.set("id", b.id); o.set("uid", hex_of(b.uid, 7)); o.set("present", b.present); o.set("addr", pc::jaddr(b.addr));
		J f = J::arr(); for (auto &x : b.features) { J e = J::arr(); e.push((int) x.first); e.push((int) x.second); f.push(e); } o.set("features", f);
		J ov = J::arr(); for (auto &x : b.override) { J e = J::arr(); e.push((int) x.first); e.push((int) x.second); ov.push(e); } o.set("override", ov);
		auto bacc = [&](const std::vector<BoardAcc> &v) { J a = J::arr(); for (auto &x : v) { J e = J::obj(); e.set("id", x.id); e.set("number", (int) x.number); e.set("aspects", aspects_j(x.aspects)); e.set("initial", x.initial); a.push(e); } return a; };
		auto dacc = [&](const std::vector<DccAcc> &v) { J a = J::arr(); for (auto &x : v) { J e = J::obj(); e.set("id", x.id); e.set("l", (int) x.addrl); e.set("h", (int) x.addrh); e.set("ext", (int) x.extended); e.set("initial", x.initial);
			J as = J::arr(); for (auto &y : x.aspects) { J q = J::obj(); q.set("id", y.id); J ps = J::arr(); for (auto &z : y.ports) { J t = J::arr(); t.push((int) z.port); t.push((int) z.value); ps.push(t); } q.set("ports", ps); as.push(q); } e.set("aspects", as); a.push(e); } return a; };
		o.set("points_board", bacc(b.points_board)); o.set("signals_board", bacc(b.signals_board)); o.set("points_dcc", dacc(b.points_dcc)); o.set("signals_dcc", dacc(b.signals_dcc));
		J pe = J::arr(); for (auto &x : b.periphs) { J e = J::obj(); e.set("id", x.id); e.set("number", (int) x.number); e.set("p0", (int) x.port0); e.set("p1", (int) x.port1); e.set("aspects", aspects_j(x.aspects)); e.set("initial", x.initial); pe.push(e); } o.set("periphs", pe);
		J sg = J::arr(); for (auto &x : b.segs) { J e = J::arr(); e.push(x.id); e.push((int) x.addr); sg.push(e); } o.set("segs", sg);
		J rv = J::arr(); for (auto &x : b.revs) { J e = J::arr(); e.push(x.id); e.push(x.cv); rv.push(e); } o.set("revs", rv);
		bs.push(o);
	}
	j.set("boards", bs);
	J ts = J::arr();
	for (auto &t : w.trains) {
		J o = J::obj(); o.set("id", t.id); o.set("l", (int) t.addrl); o.set("h", (int) t.addrh); o.set("steps", t.steps);
		J c = J::arr(); for (int x : t.calibration) c.push(x); o.set("cal", c);
		J p = J::arr(); for (auto &x : t.periphs) { J e = J::arr(); e.push(x.id); e.push((int) x.bit); e.push(x.initial); p.push(e); } o.set("periphs", p);
		ts.push(o);
	}
	j.set("trains", ts);
	J un = J::arr(); for (auto &u : w.unknown) { J e = J::obj(); e.set("addr", pc::jaddr(u.addr)); e.set("uid", hex_of(u.uid, 7)); un.push(e); } j.set("unknown", un);
	return j;
}
inline World from_json(const J &j) {
	World w;
	const J &bs = j["boards"];
	for (size_t i = 0; i < bs.size(); i++) {
		const J &o = bs[i]; Board b; b.id = o.gets("id"); auto u = unhex(o.gets("uid")); u.resize(7); memcpy(b.uid, u.data(), 7); b.present = o.getb("present"); b.addr = j_bytes(o["addr"]);
		for (size_t k = 0; k < o["features"].size(); k++) b.features.push_back({(uint8_t) o["features"][k][0].num(), (uint8_t) o["features"][k][1].num()});
		for (size_t k = 0; k < o["override"].size(); k++) b.override[(uint8_t) o["override"][k][0].num()] = (uint8_t) o["override"][k][1].num();
		auto bacc = [&](const J &a) { std::vector<BoardAcc> v; for (size_t k = 0; k < a.size(); k++) { BoardAcc x; x.id = a[k].gets("id"); x.number = (uint8_t) a[k].geti("number"); x.aspects = aspects_from(a[k]["aspects"]); x.initial = a[k].gets("initial"); v.push_back(x); } return v; };
		auto dacc = [&](const J &a) { std::vector<DccAcc> v; for (size_t k = 0; k < a.size(); k++) { DccAcc x; x.id = a[k].gets("id"); x.addrl = (uint8_t) a[k].geti("l"); x.addrh = (uint8_t) a[k].geti("h"); x.extended = (uint8_t) a[k].geti("ext"); x.initial = a[k].gets("initial");
			const J &as = a[k]["aspects"]; for (size_t q = 0; q < as.size(); q++) { DccAspect y; y.id = as[q].gets("id"); const J &ps = as[q]["ports"]; for (size_t z = 0; z < ps.size(); z++) y.ports.push_back({(uint8_t) ps[z][0].num(), (uint8_t) ps[z][1].num()}); x.aspects.push_back(y); } v.push_back(x); } return v; };
		b.points_board = bacc(o["points_board"]); b.signals_board = bacc(o["signals_board"]); b.points_dcc = dacc(o["points_dcc"]); b.signals_dcc = dacc(o["signals_dcc"]);
		const J &pe = o["periphs"]; for (size_t k = 0; k < pe.size(); k++) { Periph x; x.id = pe[k].gets("id"); x.number = (uint8_t) pe[k].geti("number"); x.port0 = (uint8_t) pe[k].geti("p0"); x.port1 = (uint8_t) pe[k].geti("p1"); x.aspects = aspects_from(pe[k]["aspects"]); x.initial = pe[k].gets("initial"); b.periphs.push_back(x); }
		const J &sg = o["segs"]; for (size_t k = 0; k < sg.size(); k++) b.segs.push_back({sg[k][0].str(), (uint8_t) sg[k][1].num()});
		const J &rv = o["revs"]; for (size_t k = 0; k < rv.size(); k++) b.revs.push_back({rv[k][0].str(), rv[k][1].str()});
		w.boards.push_back(b);
	}
	const J &ts = j["trains"];
	for (size_t i = 0; i < ts.size(); i++) {
		const J &o = ts[i]; Train t; t.id = o.gets("id"); t.addrl = (uint8_t) o.geti("l"); t.addrh = (uint8_t) o.geti("h"); t.steps = (int) o.geti("steps");
		for (size_t k = 0; k < o["cal"].size(); k++) t.calibration.push_back((int) o["cal"][k].num());
		for (size_t k = 0; k < o["periphs"].size(); k++) { TrainPeriph p; p.id = o["periphs"][k][0].str(); p.bit = (uint8_t) o["periphs"][k][1].num(); p.initial = (int) o["periphs"][k][2].num(); t.periphs.push_back(p); }
		w.trains.push_back(t);
	}
	const J &un = j["unknown"];
	for (size_t i = 0; i < un.size(); i++) { Unknown u; u.addr = j_bytes(un[i]["addr"]); auto x = unhex(un[i].gets("uid")); x.resize(7); memcpy(u.uid, x.data(), 7); w.unknown.push_back(u); }
	return w;
}

// bus nodes (tree) for the world: present boards + unknown nodes; absent boards are added as non-present nodes (for later re-login)
inline J bus_nodes(const World &w) {
	struct E { std::vector<uint8_t> addr; J j; };
	std::vector<E> es;
	for (auto &b : w.boards) {
		J n = J::obj(); n.set("addr", pc::jaddr(b.addr)); n.set("uid", hex_of(b.uid, 7)); n.set("present", b.present);
		J f = J::arr(); for (auto &x : b.features) { J e = J::arr(); e.push((int) x.first); e.push(0); f.push(e); } n.set("features", f);
		J ov = J::arr(); for (auto &x : b.override) { J e = J::arr(); e.push((int) x.first); e.push((int) x.second); ov.push(e); } n.set("override", ov);
		es.push_back({b.addr, n});
	}
	for (auto &u : w.unknown) { J n = J::obj(); n.set("addr", pc::jaddr(u.addr)); n.set("uid", hex_of(u.uid, 7)); es.push_back({u.addr, n}); }
	// parents before children; the interface first
	std::stable_sort(es.begin(), es.end(), [](const E &a, const E &b) { return a.addr.size() < b.addr.size(); });
	J ns = J::arr();
	bool have_root = false;
	for (auto &e : es) if (e.addr.empty()) have_root = true;
	if (!have_root) { J n = J::obj(); n.set("addr", J::arr()); n.set("uid", "900d0d68000199"); ns.push(n); }
	for (auto &e : es) ns.push(e.j);
	return ns;
}

inline void install(J &plan, const World &w, Rng &r) {
	J bus = J::obj(); bus.set("nodes", bus_nodes(w)); bus.set("resp_delay_us", (int) r.range(100, 3000));
	plan.set("bus", bus);
	J cfgs = J::arr(); J c = J::obj(); c.set("board", board_yaml(w)); c.set("track", track_yaml(w)); c.set("train", train_yaml(w)); cfgs.push(c);
	plan.set("configs", cfgs);
	plan.set("world", to_json(w));
}

// a world without any configured equipment: every node of `tree` is unknown to the configuration (normal-mode runs of the
// transmission properties: the start-up dialogue, sequence numbering and capacity handling are active, the state layer stays idle)
inline World bare_world(const std::vector<pc::TreeNode> &tree) {
	World w; w.iface_configured = false;
	for (auto &t : tree) { Unknown u; u.addr = t.addr; memcpy(u.uid, t.uid, 7); w.unknown.push_back(u); }
	return w;
}

// starvation of a library thread must not cover the start-up handshake (its 250 ms probe window is a legitimate timeout)
inline void starve_after_startup(J &sched, Rng &r) { if (sched.geti("policy") == sim::P_STARVE) sched.set("starve_from_ms", (int) r.range(4200, 6000)); }

inline J normal_session(int cfg_idx, int flush_ms) {
	J se = J::obj(); J st = J::obj();
	st.set("mode", "pointer"); st.set("flush_ms", flush_ms); st.set("config", cfg_idx); st.set("expect", 0);
	se.set("start", st); se.set("phases", J::arr()); se.set("stop", true);
	return se;
}

}  // namespace cfg

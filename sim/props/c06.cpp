// C06 — each uplink message has exactly one destination; queues FIFO, bounded (128), once-only.
#include "common.h"
#include "cfggen.h"

namespace {

enum Dest { D_STATE = 0, D_MSGQ = 1, D_ERRQ = 2, D_INTERN = 3 };

// reference dispatch written from the README lists (normal mode)
static Dest classify(const ref::Msg &m, bool debug) {
	if (m.type == MSG_STALL) return D_STATE;
	if (debug) return D_MSGQ;
	auto D = [&](size_t i) -> uint8_t { return i < m.data.size() ? m.data[i] : 0; };
	switch (m.type) {
		case MSG_SYS_ERROR: case MSG_NODE_NA: case MSG_FEATURE_NA: case MSG_LC_NA: return D_ERRQ;
		case MSG_ACCESSORY_STATE: case MSG_ACCESSORY_NOTIFY: return D(3) == 0x80 ? D_ERRQ : D_STATE;
		case MSG_CS_DRIVE_EVENT: return D(0) == 1 ? D_ERRQ : D_STATE;
		case MSG_BOOST_STAT: return (D(0) == 0x01 || D(0) == 0x02) ? D_ERRQ : D_STATE;
		case MSG_SYS_MAGIC: case MSG_NODETAB_COUNT: case MSG_NODETAB: case MSG_FEATURE_COUNT: case MSG_FEATURE: return D_INTERN;
		case MSG_PKT_CAPACITY: case MSG_NODE_LOST: case MSG_NODE_NEW: case MSG_CS_STATE: case MSG_CS_DRIVE_ACK: case MSG_CS_ACCESSORY_ACK:
		case MSG_CS_DRIVE_MANUAL: case MSG_CS_ACCESSORY_MANUAL: case MSG_LC_STAT: case MSG_LC_WAIT: case MSG_BM_OCC: case MSG_BM_FREE:
		case MSG_BM_MULTIPLE: case MSG_BM_CONFIDENCE: case MSG_BM_ADDRESS: case MSG_BM_CURRENT: case MSG_BM_SPEED: case MSG_BM_DYN_STATE:
		case MSG_BOOST_DIAGNOSTIC: case MSG_VENDOR:
			return D_STATE;
		default: return D_MSGQ;
	}
}

// payload of a valid length for the type
static std::vector<uint8_t> payload_for(Rng &r, uint8_t type) {
	std::vector<uint8_t> d;
	auto rnd = [&](size_t n) { for (size_t i = 0; i < n; i++) d.push_back(cat::edge_byte(r)); };
	switch (type) {
		case MSG_NODE_LOST: case MSG_NODE_NEW: case MSG_NODETAB: rnd(9); d[2] &= 0x7F; break;
		case MSG_CS_DRIVE_MANUAL: rnd(9); break;
		case MSG_BM_DYN_STATE: rnd(5); break;
		case MSG_ACCESSORY_STATE: case MSG_ACCESSORY_NOTIFY: rnd(5); d[0] &= 0x7F; d[3] = r.chance(400) ? 0x80 : (uint8_t) r.below(4); break;
		case MSG_BM_SPEED: rnd(4); break;
		case MSG_CS_DRIVE_ACK: case MSG_CS_ACCESSORY_ACK: case MSG_CS_ACCESSORY_MANUAL: case MSG_LC_STAT: case MSG_LC_WAIT: case MSG_BM_CONFIDENCE: case MSG_BM_POSITION: rnd(3); break;
		case MSG_BM_MULTIPLE: { size_t sz = (size_t) r.range(1, 8) * 8; d.push_back((uint8_t) (r.below(8) * 8)); d.push_back((uint8_t) sz); rnd(sz / 8); break; }
		case MSG_BM_CURRENT: case MSG_FEATURE: rnd(2); break;
		case MSG_BOOST_DIAGNOSTIC: { size_t n = (size_t) r.range(1, 4); for (size_t i = 0; i < n; i++) { d.push_back((uint8_t) r.below(4)); d.push_back(r.byte()); } break; }
		case MSG_BM_ADDRESS: { d.push_back(r.byte()); size_t n = (size_t) r.below(4); rnd(n * 2); break; }
		case MSG_BOOST_STAT: { static const uint8_t st[] = {0, 1, 2, 3, 4, 5, 6, 0x80, 0x81, 0x82, 0x84}; d.push_back(st[r.below(11)]); break; }
		case MSG_CS_DRIVE_EVENT: d.push_back((uint8_t) r.below(3)); rnd((size_t) r.below(4)); break;
		case MSG_SYS_ERROR: {
			// codes without a parameter byte (none, overrun, reset required, no secure-ack by host) are sent as the spec defines them: one data byte
			static const uint8_t bare[] = {0x00, 0x16, 0x21, 0x30};
			if (r.chance(350)) d.push_back(bare[r.below(4)]);
			else { d.push_back((uint8_t) r.below(0x32)); d.push_back((uint8_t) r.below(9)); }
			break;
		}
		case MSG_PKT_CAPACITY: d.push_back((uint8_t) r.range(64, 255)); break;
		case MSG_CS_STATE: { static const uint8_t st[] = {0, 1, 2, 3, 4, 8, 9, 0x0D, 0xFF}; d.push_back(st[r.below(9)]); break; }
		case MSG_BM_OCC: case MSG_BM_FREE: case MSG_NODETAB_COUNT: rnd(1); break;
		case MSG_VENDOR: { size_t nl = (size_t) r.below(6), vl = (size_t) r.below(4); d.push_back((uint8_t) nl); rnd(nl); d.push_back((uint8_t) vl); rnd(vl); break; }
		case MSG_STALL: d.push_back(0); break;
		default: rnd((size_t) r.below(8)); break;
	}
	return d;
}

struct LockEv { int lock; int task; uint64_t step; };
static std::vector<LockEv> *g_lock_log = nullptr;
static int g_q_ids[3] = {-1, -1, -1};
static void lock_hook(sim::LockInfo *l, char, sim::Task *t, bool acquire) {
	if (!acquire || !g_lock_log) return;
	for (int i = 0; i < 3; i++) if (l->id == g_q_ids[i]) g_lock_log->push_back(LockEv{i, t->id, sim::step()});
}

struct C06 : Prop {
	const char *id() const override { return "C06"; }
	std::string rule() const override {
		return "plan (debug and normal mode, generated configurations) = uplink traffic of all 256 type codes with payloads of the length their type requires (error and "
		       "non-error variants of ACCESSORY_STATE/NOTIFY, BOOST_STAT, CS_DRIVE_EVENT), bursts that fill the queues to 120-135 entries, 0-4 reader tasks popping the "
		       "message/error/intern queues while the receiver pushes. Oracle: reference dispatch table (STATE/MSGQ/ERRQ/INTERN) gives the expected pushes per queue; the "
		       "order of critical sections on each queue mutex (observed by the simulator) is the linearisation order in which a sequential bounded FIFO (128, drop-oldest) "
		       "is replayed; every pop must return exactly the model's element. non-trivial = an overflow happened or >=2 readers popped concurrently; distinct = (shape, trace).";
	}
	J generate(Rng &r, const std::string &tier, uint64_t) override {
		bool thorough = tier == "thorough";
		J plan = J::obj();
		bool normal = r.chance(500);
		std::vector<std::vector<uint8_t>> addrs;
		J se;
		if (normal) {
			cfg::World w = cfg::gen_world(r, 3, 2);
			// Secure-ACK boards are frequent: their reports are answered by the receiver itself (mirror) AND handed to the application
			for (auto &b : w.boards) { bool has = false; for (auto &f : b.features) if (f.first == 0x03) has = true; if (!has && r.chance(500)) b.features.push_back({0x03, (uint8_t) r.range(1, 200)}); }
			cfg::install(plan, w, r);
			se = cfg::normal_session(0, r.chance(500) ? 0 : (int) r.range(5, 50));
			for (auto &b : w.boards) if (b.present) addrs.push_back(b.addr);
			for (auto &u : w.unknown) addrs.push_back(u.addr);
		} else {
			auto tree = pc::gen_tree(r, 3);
			J bus = J::obj(); bus.set("nodes", pc::tree_json(tree)); plan.set("bus", bus);
			se = pc::debug_session(0);
			for (auto &n : tree) addrs.push_back(n.addr);
		}
		plan.set("normal", normal);
		J phs = J::arr();
		{   // initial drain (not judged): start-up traffic
			J ph = J::obj(); J pre = J::arr();
			for (const char *q : {"read", "read_err", "read_intern"}) { J d = J::obj(); d.set("op", "drain"); d.set("q", q); pre.push(d); }
			ph.set("pre", pre); ph.set("model_start", true);
			J post = J::arr(); post.push("quiesce"); ph.set("post", post);
			phs.push(ph);
		}
		int nph = (int) r.range(1, thorough ? 4 : 2), maxt = 1;
		for (int p = 0; p < nph; p++) {
			J ph = J::obj(); J ev = J::arr();
			bool burst = r.chance(450);
			int n = burst ? (int) r.range(120, 136) : (int) r.range(3, 40);
			int t = 0;
			uint8_t burst_type = 0;
			if (burst) { do { burst_type = (uint8_t) (0x80 | r.below(128)); } while (classify(ref::Msg{{}, 0, burst_type, {}, {}}, !normal) != D_MSGQ && !(r.chance(300))); }
			for (int k = 0; k < n; k++) {
				uint8_t type;
				if (burst && r.chance(930)) type = burst_type;
				else { do { type = r.chance(850) ? (uint8_t) (0x80 | r.below(128)) : r.byte(); } while (type == MSG_STALL && r.chance(900)); }
				if (normal && (type == MSG_NODE_LOST || type == MSG_NODE_NEW) && r.chance(800)) type = MSG_SYS_PONG;
				if (normal && !burst && r.chance(120)) type = MSG_BM_POSITION;
				J e = J::obj();
				t += burst ? (int) r.range(0, 300) : (int) r.range(0, 5000);
				e.set("at_us", t); e.set("node", pc::jaddr(addrs[r.below(addrs.size())]));
				int nm = r.chance(150) ? (int) r.range(2, 3) : 1;
				if (nm == 1) { e.set("type", (int) type); e.set("data", bytes_j(payload_for(r, type))); }
				else {
					J ms = J::arr();
					for (int q = 0; q < nm; q++) { uint8_t ty = q == 0 ? type : (uint8_t) (0x80 | r.below(128)); if (ty == MSG_STALL || ty == MSG_NODE_LOST || ty == MSG_NODE_NEW) ty = MSG_SYS_PONG; J m = J::obj(); m.set("type", (int) ty); m.set("data", bytes_j(payload_for(r, ty))); ms.push(m); }
					e.set("msgs", ms);
				}
				ev.push(e);
			}
			ph.set("bus", ev);
			int nt = (int) r.below(5); maxt = std::max(maxt, nt);
			J tasks = J::arr();
			for (int q = 0; q < nt; q++) {
				J ops = J::arr();
				int no = (int) r.range(1, thorough ? 60 : 30);
				for (int i = 0; i < no; i++) {
					uint64_t x = r.below(100);
					J o = J::obj();
					if (x < 12) { o.set("op", "sleep"); o.set("us", (int) r.range(100, 20000)); }
					else if (x < 25) { o.set("op", "sleep"); o.set("us", (int) r.range(1, 2) * 5000); }
					else if (x < 75) o.set("op", "read");
					else if (x < 90) o.set("op", "read_err");
					else o.set("op", "read_intern");
					ops.push(o);
				}
				tasks.push(ops);
			}
			ph.set("tasks", tasks);
			J post = J::arr(); post.push("quiesce"); ph.set("post", post);
			phs.push(ph);
			// sequential drain (checked against the model as well)
			J dp = J::obj(); J pre = J::arr();
			if (r.chance(700)) for (const char *q : {"read", "read_err", "read_intern"}) { J d = J::obj(); d.set("op", "drain"); d.set("q", q); pre.push(d); }
			dp.set("pre", pre);
			J post2 = J::arr(); post2.push("quiesce"); dp.set("post", post2);
			phs.push(dp);
		}
		se.set("phases", phs);
		// a warm-up session (same start, no traffic) gives the level of library-attributed heap that survives a stop; whatever the main session still
		// holds in its queues when it is stopped must be released down to that level
		J warm = J::obj(); warm.set("start", se["start"]); warm.set("phases", J::arr()); warm.set("stop", true); warm.set("warm", true);
		J ss = J::arr(); ss.push(warm); ss.push(se); plan.set("sessions", ss);
		{ J sc = sched_json(r, tier, maxt + 1, true); cfg::starve_after_startup(sc, r); plan.set("sched", sc); }
		return plan;
	}

	std::vector<LockEv> lock_log;
	std::vector<std::vector<uint8_t>> expected[3];     // per queue, in processing order (raw message bytes)
	size_t log_pos = 0, exp_pos[3] = {0, 0, 0};
	std::deque<std::vector<uint8_t>> model[3];
	std::map<int, std::vector<size_t>> reads_by_task[3];  // task -> oplog indices of its read ops on queue q, in order
	std::map<int, size_t> read_pos[3];
	size_t ops_seen = 0;
	bool modelling = false, debug = false;
	int receiver = -1;
	uint64_t overflows = 0, pops = 0, concurrent_pops = 0, state_consumed = 0, dest_count[4] = {0, 0, 0, 0};

	void attach(Engine &e) override {
		lock_log.clear(); for (int i = 0; i < 3; i++) { expected[i].clear(); exp_pos[i] = 0; model[i].clear(); reads_by_task[i].clear(); read_pos[i].clear(); }
		log_pos = 0; ops_seen = 0; modelling = false; receiver = -1; base_live = -1; unread_at_stop = stop_heap_checks = 0; overflows = pops = concurrent_pops = state_consumed = 0;
		for (int i = 0; i < 4; i++) dest_count[i] = 0;
		debug = !e.plan.getb("normal");
		sim::lockset_arm(false); sim::lockset_reset_counters();
		g_lock_log = &lock_log;
		sim::hooks().on_lock = lock_hook;
		bringup_probe_sent = false; bringup_probes_checked = 0;
		e.bus.on_request = nullptr;
		if (!debug) e.bus.on_request = [this, &e](bus::Node &n, const ref::Msg &m) {
			if (!bringup_probe_sent && m.type == MSG_SYS_ENABLE && n.addr.empty() && e.cur_session > 0) { bringup_probe_sent = true; e.bus.emit(0, MSG_NODE_NA, {0x77}, {}, 2000, 0); }
			return false;
		};
		e.bus.on_delivered = [this](bus::UpFrame &f) {
			if (!modelling || f.corrupted) return;
			for (auto &m : f.msgs) {
				Dest d = classify(m, debug);
				dest_count[d]++;
				if (d == D_STATE) { state_consumed++; continue; }
				ref::Msg c = m; std::vector<uint8_t> raw = c.encode();
				expected[d - 1].push_back(raw);
			}
		};
	}
	int64_t base_live = -1; uint64_t unread_at_stop = 0, stop_heap_checks = 0, bringup_probes_checked = 0; bool bringup_probe_sent = false;
	static bool is_warm(Engine &e, int s) { return e.plan["sessions"][(size_t) s].getb("warm"); }
	void on_session_stop(Engine &e, int s) override {
		if (is_warm(e, s)) { base_live = sim::lib_live_bytes(); return; }
		if (base_live < 0 || sim::lib_total_allocs() == 0) return;
		stop_heap_checks++;
		for (int q = 0; q < 3; q++) unread_at_stop += model[q].size();
		int64_t live = sim::lib_live_bytes();
		if (live > base_live)
			e.violate("QUEUED_MESSAGES_NOT_RELEASED", "bidib_stop", "library-attributed live heap is " + std::to_string(live) + " bytes after bidib_stop, " + std::to_string(live - base_live) + " more than after the traffic-free warm-up session; the model queues held " +
			          std::to_string(model[0].size()) + " / " + std::to_string(model[1].size()) + " / " + std::to_string(model[2].size()) + " unread messages when the session was stopped");
	}
	void on_session_start(Engine &e, int s, int ret) override {
		if (is_warm(e, s)) return;
		// normal mode: a report that arrived while the start-up dialogue was still going on (right after SYS_ENABLE reached the bus) must be waiting in its queue
		if (!debug && ret == 0 && bringup_probe_sent) {
			bool found = false;
			for (int k = 0; k < 300; k++) { sim::ApiScope api("bidib_read_error_message"); uint8_t *m = bidib_read_error_message(); if (!m) break; size_t len = (size_t) m[0] + 1; for (size_t q = 0; q + 1 < len; q++) if (m[q] == MSG_NODE_NA && m[q + 1] == 0x77) found = true; free(m); }
			bringup_probes_checked++;
			if (!found) e.violate("REPORT_DURING_BRINGUP_LOST", "error queue", "MSG_NODE_NA(0x77) from the interface arrived while the start-up dialogue was going on (right after MSG_SYS_ENABLE reached the bus); after bidib_start returned it is in no queue");
		}
		sim::lockset_arm(ret == 0);
		const auto &names = sim::lock_names();
		static const char *qn[3] = {"bidib_uplink_queue_mutex", "bidib_uplink_error_queue_mutex", "bidib_uplink_intern_queue_mutex"};
		for (int i = 0; i < 3; i++) for (size_t k = 0; k < names.size(); k++) if (names[k] == qn[i]) g_q_ids[i] = (int) k;
		for (int i = 0; i < sim::task_count(); i++) if (sim::task(i)->name.find("bidib_auto_receive") != std::string::npos) receiver = i;
	}
	void before_stop(Engine &e, int s) override { if (is_warm(e, s)) return; if (modelling) replay(e); sim::lockset_arm(false); modelling = false; g_lock_log = nullptr; sim::hooks().on_lock = nullptr; }

	void after_op(Engine &e, OpRec &o) override {
		(void) e;
		const std::string &k = o.op->gets("op");
		int q = k == "read" ? 0 : k == "read_err" ? 1 : k == "read_intern" ? 2 : -1;
		if (q < 0 || !modelling) return;
		int tid = sim::self_id();
		reads_by_task[q][tid].push_back(e.oplog.size() - 1);
	}

	void replay(Engine &e) {
		static const char *qname[3] = {"message queue", "error queue", "intern queue"};
		for (; log_pos < lock_log.size(); log_pos++) {
			const LockEv &ev = lock_log[log_pos];
			int q = ev.lock;
			if (ev.task == receiver) {
				if (exp_pos[q] >= expected[q].size())
					e.violate("WRONG_DESTINATION", qname[q], std::string("the receiver appended a message to the ") + qname[q] + " although the reference dispatch expects no further message there (" + std::to_string(expected[q].size()) + " expected so far)");
				if (model[q].size() == 128) { model[q].pop_front(); overflows++; }
				model[q].push_back(expected[q][exp_pos[q]++]);
			} else {
				auto it = reads_by_task[q].find(ev.task);
				size_t &rp = read_pos[q][ev.task];
				if (it == reads_by_task[q].end() || rp >= it->second.size()) continue;   // reset / free by start-stop code
				const OpRec &o = e.oplog[it->second[rp++]];
				pops++;
				if (model[q].empty()) {
					if (o.has_bytes) e.violate("POP_FROM_EMPTY", qname[q], std::string("read returned ") + hex_of(o.bytes) + " although the model queue is empty at this linearisation point");
				} else {
					if (!o.has_bytes) e.violate("POP_MISSED", qname[q], std::string("read returned NULL although the ") + qname[q] + " holds " + std::to_string(model[q].size()) + " messages at this linearisation point (oldest " + hex_of(model[q].front()) + ")");
					if (o.bytes != model[q].front()) {
						bool later = false; for (auto &x : model[q]) if (x == o.bytes) later = true;
						e.violate(later ? "NOT_FIFO" : "WRONG_CONTENT", qname[q], "read returned " + hex_of(o.bytes) + " but the oldest queued message is " + hex_of(model[q].front()) + " (queue length " + std::to_string(model[q].size()) + ")");
					}
					model[q].pop_front();
				}
			}
		}
	}

	void at_quiescence(Engine &e, int s, int p) override {
		const J &ph = e.plan["sessions"][(size_t) s]["phases"][(size_t) p];
		if (ph.getb("model_start")) { modelling = true; lock_log.clear(); log_pos = 0; for (int q = 0; q < 3; q++) { reads_by_task[q].clear(); read_pos[q].clear(); } return; }
		if (!modelling) return;
		replay(e);
		static const char *qname[3] = {"message queue", "error queue", "intern queue"};
		for (int q = 0; q < 3; q++)
			if (exp_pos[q] != expected[q].size())
				e.violate("MESSAGE_NOT_QUEUED", qname[q], "the reference dispatch sends " + std::to_string(expected[q].size()) + " messages to the " + qname[q] + " but the receiver appended only " + std::to_string(exp_pos[q]) + " (next missing: " + hex_of(expected[q][exp_pos[q]]) + ")");
	}

	void coverage(Engine &e, J &f) override {
		// concurrent pops: two read ops of different tasks overlapping in steps
		uint64_t conc = 0;
		std::vector<const OpRec *> rs;
		for (auto &o : e.oplog) if (o.op->gets("op") == "read" && o.task > 0) rs.push_back(&o);
		for (size_t i = 0; i < rs.size() && !conc; i++) for (size_t j = i + 1; j < rs.size() && j < i + 40; j++) if (rs[i]->task != rs[j]->task && rs[i]->inv_step < rs[j]->ret_step && rs[j]->inv_step < rs[i]->ret_step) { conc = 1; break; }
		f.set("nontrivial", overflows > 0 || conc > 0);
		f.set("shape", (long long) (pc::shape_hash(e.plan) >> 1));
		J p = J::obj();
		p.set("glib_container_lockset_checks", (long long) sim::lockset_checks());
		p.set("overflow_drops", (long long) overflows); p.set("pops_checked", (long long) pops); p.set("runs_with_concurrent_pops", (long long) conc);
		p.set("to_state", (long long) dest_count[0]); p.set("to_message_queue", (long long) dest_count[1]); p.set("to_error_queue", (long long) dest_count[2]); p.set("to_intern_queue", (long long) dest_count[3]);
		p.set("heap_level_checks_after_stop", (long long) stop_heap_checks); p.set("reports_during_bringup_checked", (long long) bringup_probes_checked); p.set("messages_still_queued_at_stop", (long long) unread_at_stop);
		p.set("normal_mode_runs", debug ? 0 : 1); p.set("debug_mode_runs", debug ? 1 : 0);
		f.set("probes", p);
	}
};

}  // namespace

Prop *make_c06() { return new C06(); }

// C17 — query results are initialised deep copies, safe to free for known / unknown ids.
#include "common.h"
#include "cfggen.h"
#include "apiops.h"

namespace {

struct C17 : Prop {
	const char *id() const override { return "C17"; }
	std::string rule() const override {
		return "plan = generated worlds; state histories (every state-bearing uplink message kind, user commands) during which 1-3 reader tasks call every getter with known "
		       "ids, unknown ids and NULL while the receiver updates the state; every result is retained. Oracle: (1) at acquisition each result is scanned raw for fields that "
		       "can only be uninitialised memory (bool not 0/1, enum out of range, pointer / integer made of the stack or heap fill pattern); (2) the canonical form of every "
		       "retained result is recomputed after each later phase and after bidib_stop and must not have changed (under ASan: a shallow copy of freed state is a "
		       "use-after-free); (3) every result is passed to its free function exactly once after the stop (invalid / double free under ASan); (4) at quiescent moments every "
		       "entity of bidib_get_state equals the corresponding single-entity getter field by field; (5) hot-entity runs (three in ten): two uplink messages A and B that each determine "
		       "one entity's state are delivered A, B, A, B with a quiescent read after each (the two canonical results must be reproducible), then alternate every 5-15 ms while 1-3 "
		       "tasks call that entity's getter and bidib_get_state; library calls incl. strdup/malloc/free/strcmp/memcpy are preemption points; every concurrent result must equal "
		       "one of the two canonical results (a copy of ONE state). non-trivial = results for known, unknown and NULL ids were retained "
		       "across >=1 state change and the stop; distinct = (shape, trace).";
	}
	// ---- "hot entity" runs: one entity, two uplink messages A and B that each determine its state. Calibration phases deliver
	// A, B, A, B with a quiescent read after each (RA, RB and a check that they are reproducible); then A and B alternate densely on
	// the time grid while reader tasks call the entity's getter and bidib_get_state. A query result is a copy of ONE state of the
	// entity: every concurrent result must equal RA or RB (a mix of both, or a copy of memory the receiver released meanwhile, is not).
	struct Hot { std::string fn, key, idv; J a, b, a2; bool ok = false, no_arg = false, with_reset = false, has_a2 = false; };
	static J ev(const std::vector<uint8_t> &addr, int type, J data) { J e = J::obj(); e.set("node", pc::jaddr(addr)); e.set("type", type); e.set("data", data); return e; }
	static Hot pick_hot(Rng &r, const cfg::World &w) {
		std::vector<Hot> c;
		const cfg::Board *to = nullptr;
		for (auto &b : w.boards) if (b.present && b.track_output()) to = &b;
		for (auto &b : w.boards) {
			if (!b.present) continue;
			for (auto &p : b.periphs) { Hot h; h.fn = "peripheral_state"; h.key = "peripherals"; h.idv = p.id; int va = p.aspects[0].value, vb = p.aspects.size() > 1 ? p.aspects[1].value : (int) (uint8_t) (va + 1);
				h.a = ev(b.addr, MSG_LC_STAT, pc::jarr({p.port0, p.port1, va})); h.b = ev(b.addr, MSG_LC_STAT, pc::jarr({p.port0, p.port1, vb})); c.push_back(h); }
			auto board_acc = [&](const cfg::BoardAcc &a, const char *fn, const char *key) { Hot h; h.fn = fn; h.key = key; h.idv = a.id; int va = a.aspects[0].value, vb = a.aspects.size() > 1 ? a.aspects[1].value : (int) (uint8_t) (va + 1);
				h.a = ev(b.addr, MSG_ACCESSORY_STATE, pc::jarr({a.number, va, 4, 0, 0})); h.b = ev(b.addr, MSG_ACCESSORY_STATE, pc::jarr({a.number, vb, 4, 1, 20})); c.push_back(h); };
			for (auto &a : b.points_board) board_acc(a, "point_state", "points_board");
			for (auto &a : b.signals_board) board_acc(a, "signal_state", "signals_board");
			auto dcc_acc = [&](const cfg::DccAcc &a, const char *fn, const char *key) { Hot h; h.fn = fn; h.key = key; h.idv = a.id;
				h.a = ev(b.addr, MSG_CS_ACCESSORY_MANUAL, pc::jarr({a.addrl, a.addrh, 0x20})); h.b = ev(b.addr, MSG_CS_ACCESSORY_MANUAL, pc::jarr({a.addrl, a.addrh, 0x21})); c.push_back(h); };
			if (b.track_output()) { for (auto &a : b.points_dcc) dcc_acc(a, "point_state", "points_dcc"); for (auto &a : b.signals_dcc) dcc_acc(a, "signal_state", "signals_dcc"); }
			for (auto &g : b.segs) { Hot h; h.fn = "segment_state"; h.key = "segments"; h.idv = g.id;
				J da = pc::jarr({g.addr}); for (int q = 0, n = (int) r.range(1, 3); q < n; q++) { da.push((int) r.byte()); da.push((int) r.below(0x28) | (r.coin() ? 0x80 : 0)); }
				h.a = ev(b.addr, MSG_BM_ADDRESS, da); h.b = r.coin() ? ev(b.addr, MSG_BM_ADDRESS, pc::jarr({g.addr, 0, 0})) : ev(b.addr, MSG_BM_FREE, pc::jarr({g.addr})); c.push_back(h); }
			for (auto &g : b.revs) { Hot h; h.fn = "reverser_state"; h.key = "reversers"; h.idv = g.id;
				auto mk = [&](char v) { J d = J::arr(); d.push((int) g.cv.size()); for (char ch : g.cv) d.push((int) (uint8_t) ch); d.push(1); d.push((int) v); return ev(b.addr, MSG_VENDOR, d); };
				h.a = mk('0'); h.b = mk('1'); c.push_back(h); }
			if (b.booster()) { Hot h; h.fn = "booster_state"; h.key = "boosters"; h.idv = b.id; h.a = ev(b.addr, MSG_BOOST_STAT, pc::jarr({0x80})); h.b = ev(b.addr, MSG_BOOST_STAT, pc::jarr({0x02}));
				if (r.coin()) { h.a = ev(b.addr, MSG_BOOST_DIAGNOSTIC, pc::jarr({0, 10, 1, 20, 2, 30})); h.b = ev(b.addr, MSG_BOOST_DIAGNOSTIC, pc::jarr({0, 200, 1, 210, 2, 220})); } c.push_back(h); }
			if (b.track_output()) { Hot h; h.fn = "track_output_state"; h.key = "track_outputs"; h.idv = b.id; h.a = ev(b.addr, MSG_CS_STATE, pc::jarr({3})); h.b = ev(b.addr, MSG_CS_STATE, pc::jarr({0})); c.push_back(h); }
		}
		// the list of connected boards while one leaf board leaves and logs in again and again
		for (auto &b : w.boards) if (b.present && !b.addr.empty() && !b.is_iface()) { Hot h; h.fn = "boards_connected"; h.key = ""; h.idv = b.id; h.no_arg = true;
			h.a = J::obj(); h.a.set("topo", "lost"); h.a.set("node", pc::jaddr(b.addr)); h.b = J::obj(); h.b.set("topo", "new"); h.b.set("node", pc::jaddr(b.addr)); c.push_back(h); c.push_back(h); }
		if (to) for (auto &t : w.trains) { Hot h; h.fn = "train_state"; h.key = "trains"; h.idv = t.id;
			h.a = ev(to->addr, MSG_CS_DRIVE_MANUAL, pc::jarr({t.addrl, t.addrh, 3, 0x1F, 0x85, 0x1F, 0xFF, 0xFF, 0xFF})); h.b = ev(to->addr, MSG_CS_DRIVE_MANUAL, pc::jarr({t.addrl, t.addrh, 3, 0x1F, 0x02, 0, 0, 0, 0})); c.push_back(h); }
		// where a train is, while the APPLICATION resets the system (the reset empties the segment lists from the calling thread, not from the receiver)
		for (auto &b : w.boards) if (b.present && !b.segs.empty() && !w.trains.empty()) { const cfg::Train &t = w.trains[r.below(w.trains.size())]; Hot h; h.fn = "train_position"; h.key = ""; h.idv = t.id; h.with_reset = true;
			J da = pc::jarr({b.segs[0].addr, t.addrl, (int) (t.addrh & 0x3F)});
			h.a = ev(b.addr, MSG_BM_ADDRESS, da); h.b = ev(b.addr, MSG_BM_ADDRESS, pc::jarr({b.segs[0].addr, 0, 0})); for (int q = 0; q < 4; q++) c.push_back(h); break; }
		if (c.empty()) return Hot();
		Hot h = c[r.below(c.size())]; h.ok = true; return h;
	}
	J generate_hot(Rng &r, const std::string &tier) {
		bool thorough = tier == "thorough";
		J plan = J::obj();
		cfg::GenOpts o; o.max_boards = 3; o.max_trains = 2; o.allow_absent = false;
		cfg::World w = cfg::gen_world(r, o);
		cfg::install(plan, w, r);
		Hot h = pick_hot(r, w);
		if (!h.ok) return J();
		J hot = J::obj(); hot.set("fn", h.fn); hot.set("key", h.key); hot.set("id", h.idv); plan.set("hot", hot);
		J se = cfg::normal_session(0, 0);
		J phs = J::arr();
		auto getr = [&](const char *tag) { J g = J::obj(); g.set("op", "getr"); g.set("fn", h.fn); J s = J::arr(); if (!h.no_arg) s.push(h.idv); g.set("s", s); g.set("i", J::arr()); g.set("tag", tag); return g; };
		auto quiesce = [&](J &ph) { J post = J::arr(); post.push("quiesce"); ph.set("post", post); };
		for (int k = 0; k < 5; k++) {      // calibration: initial, A, B, A, B
			J ph = J::obj();
			if (k > 0) { J e = (k & 1) ? h.a : h.b; e.set("at_us", 0); J evs = J::arr(); evs.push(e); ph.set("bus", evs); quiesce(ph); phs.push(ph); ph = J::obj(); }
			J ops = J::arr(); ops.push(getr(k == 0 ? "cal0" : k == 1 ? "calA" : k == 2 ? "calB" : k == 3 ? "calA2" : "calB2")); J tasks = J::arr(); tasks.push(ops); ph.set("tasks", tasks); quiesce(ph); phs.push(ph);
		}
		int grid = 5000, maxt = 1;
		if (h.with_reset) {
			// the train is listed; one task resets the system (the library empties its segment lists 1.5 s into the call) while two readers ask for the train's
			// position three times at every grid instant for 1.7 s
			J ph = J::obj(); J evs = J::arr(); { J e = h.a; e.set("at_us", 0); evs.push(e); } ph.set("bus", evs);
			J tasks = J::arr();
			{ J ops = J::arr(); J s1 = J::obj(); s1.set("op", "sleep"); s1.set("us", 2 * grid); ops.push(s1); J ro = J::obj(); ro.set("op", "reset"); ops.push(ro); tasks.push(ops); }
			for (int q = 0; q < 2; q++) { J ops = J::arr(); J s1 = J::obj(); s1.set("op", "sleep"); s1.set("us", 2 * grid); ops.push(s1);
				J rep = J::obj(); rep.set("op", "repeat"); rep.set("n", 1020); rep.set("sleep_every", 3); rep.set("sleep_us", grid); rep.set("body", getr("hot")); ops.push(rep); tasks.push(ops); }
			ph.set("tasks", tasks); maxt = 3; quiesce(ph); phs.push(ph);
		}
		for (int rep = 0, nrep = h.with_reset ? 0 : (int) r.range(1, thorough ? 4 : 2); rep < nrep; rep++) {
			J ph = J::obj(); J evs = J::arr();
			int n = (int) r.range(4, thorough ? 40 : 20), gap = (r.chance(600) ? 1 : (int) r.range(2, 3)) * grid, t = 0;
			for (int i = 0; i < n; i++) { J e = (i & 1) ? h.b : h.a; t += gap; e.set("at_us", t); evs.push(e); }
			ph.set("bus", evs);
			int nt = (int) r.range(1, 3); maxt = std::max(maxt, nt);
			J tasks = J::arr();
			for (int q = 0; q < nt; q++) {
				J ops = J::arr();
				{ J s = J::obj(); s.set("op", "sleep"); s.set("us", (int) r.range(1, 3) * grid); ops.push(s); }
				for (int i = 0, no = (int) r.range(3, thorough ? 30 : 16); i < no; i++) {
					if (r.chance(750)) ops.push(getr("hot")); else { J g = J::obj(); g.set("op", "getr"); g.set("fn", "state"); g.set("s", J::arr()); g.set("i", J::arr()); g.set("tag", "hot"); ops.push(g); }
					if (r.chance(350)) { J s = J::obj(); s.set("op", "sleep"); s.set("us", (int) r.range(1, 2) * grid); ops.push(s); }     // (batches of calls at one grid instant)
				}
				tasks.push(ops);
			}
			ph.set("tasks", tasks); ph.set("compare", r.chance(500)); quiesce(ph); phs.push(ph);
		}
		se.set("phases", phs);
		J ss = J::arr(); ss.push(se); plan.set("sessions", ss);
		J sc = sched_json(r, tier, maxt + 1, true);
		sc.set("fn_yield", h.with_reset ? (int) r.range(150, 300) : (int) r.range(20, 250)); sc.set("grid_us", grid); sc.set("jitter_us", 0);
		if (h.with_reset) { sc.set("policy", (int) sim::P_RANDOM); sc.set("max_steps", 40000000); }
		plan.set("sched", sc);
		return plan;
	}

	J generate(Rng &r, const std::string &tier, uint64_t) override {
		bool thorough = tier == "thorough";
		if (r.chance(300)) { J hp = generate_hot(r, tier); if (hp.is_obj()) return hp; }
		J plan = J::obj();
		cfg::GenOpts o; o.max_boards = thorough ? 4 : 3; o.max_trains = 3; o.allow_absent = r.chance(400);
		cfg::World w = cfg::gen_world(r, o);
		cfg::install(plan, w, r);
		api::Ids ids = api::collect(w);
		J se = cfg::normal_session(0, r.chance(600) ? 0 : (int) r.range(5, 40));
		J phs = J::arr();
		{ J ph = J::obj(); ph.set("compare", true); J post = J::arr(); post.push("quiesce"); ph.set("post", post); phs.push(ph); }
		int nph = (int) r.range(1, thorough ? 6 : 4), maxt = 1; bool did_reset = false;
		for (int p = 0; p < nph; p++) {
			J ph = J::obj(); J ev = J::arr();
			int t = 0;
			for (int i = 0, n = (int) r.range(1, 14); i < n; i++) { t += (int) r.range(0, 5000); ev.push(api::uplink_event(r, w, t)); }
			ph.set("bus", ev);
			int nt = (int) r.range(1, 3); maxt = std::max(maxt, nt);
			J tasks = J::arr();
			for (int q = 0; q < nt; q++) {
				J ops = J::arr();
				for (int i = 0, no = (int) r.range(1, thorough ? 14 : 8); i < no; i++) {
					uint64_t x = r.below(100);
					if (x < 75) { J g = api::get_op(r, ids, w); g.set("op", "getr"); ops.push(g); }
					else if (x < 87) { J h = api::hl_op(r, ids); ops.push(h); }
					else if (x < 88 && q == 0 && !did_reset && r.chance(300)) { J ro = J::obj(); ro.set("op", "reset"); ops.push(ro); did_reset = true; }      // (one system reset per run, by one task, while the others keep querying)
					else { J s = J::obj(); s.set("op", "sleep"); s.set("us", (int) r.range(100, 10000)); ops.push(s); }
				}
				tasks.push(ops);
			}
			ph.set("tasks", tasks); ph.set("compare", r.chance(600));
			J post = J::arr(); post.push("quiesce"); ph.set("post", post);
			phs.push(ph);
		}
		se.set("phases", phs);
		J ss = J::arr(); ss.push(se); plan.set("sessions", ss);
		J sc = sched_json(r, tier, maxt + 1, true); cfg::starve_after_startup(sc, r);
		plan.set("sched", sc);
		return plan;
	}

	cfg::World world;
	uint64_t known = 0, unknown = 0, nulls = 0, rechecks = 0, snapshot_cmp = 0, released = 0, hot_results = 0, hot_overlapping = 0, index_cmp = 0;
	bool is_hot = false, hot_determined = false;
	J cal[5];

	void attach(Engine &e) override {
		world = cfg::from_json(e.plan["world"]); known = unknown = nulls = rechecks = snapshot_cmp = released = hot_results = hot_overlapping = index_cmp = 0;
		is_hot = e.plan.has("hot"); hot_determined = false; for (auto &c : cal) c = J();
	}

	void hot_result(Engine &e, OpRec &o, const std::string &tag) {
		static const char *tags[] = {"cal0", "calA", "calB", "calA2", "calB2"};
		for (int k = 0; k < 5; k++) if (tag == tags[k]) { cal[k] = o.result; if (k == 4) hot_determined = cal[1].dump() == cal[3].dump() && cal[2].dump() == cal[4].dump() && cal[1].dump() != cal[2].dump(); return; }
		if (tag != "hot" || !hot_determined) return;
		const J &hot = e.plan["hot"];
		hot_results++;
		std::string got, ra, rb;
		if (o.op->gets("fn") == "state" && hot.gets("key").empty()) { hot_results--; return; }      // (the snapshot has no part for this kind)
		if (o.op->gets("fn") == "state") {
			const J &part = o.result[hot.gets("key")];
			if (!part.has(hot.gets("id"))) { e.violate("TORN_RESULT", "bidib_get_state", "bidib_get_state taken while " + hot.gets("id") + " was being updated does not contain it"); return; }
			got = part[hot.gets("id")].dump();
			if (hot.gets("fn") == "track_output_state") { ra = "{\"cs\":" + std::to_string(cal[1].geti("cs")) + "}"; rb = "{\"cs\":" + std::to_string(cal[2].geti("cs")) + "}"; J g = J::obj(); g.set("cs", part[hot.gets("id")].geti("cs")); got = g.dump(); }
			else { ra = cal[1]["data"].dump(); rb = cal[2]["data"].dump(); }
		} else { got = o.result.dump(); ra = cal[1].dump(); rb = cal[2].dump(); }
		if (got != ra && got != rb)
			e.violate("TORN_RESULT", "bidib_get_" + o.op->gets("fn"), "result of bidib_get_" + o.op->gets("fn") + " for " + hot.gets("id") + " taken while the receiver alternates between two states of it is a copy of neither: got " + got.substr(0, 500) + "; the two states read back at quiescent moments: " + ra.substr(0, 500) + " / " + rb.substr(0, 500));
	}

	void after_op(Engine &e, OpRec &o) override {
		if (o.op->gets("op") != "getr") return;
		if (is_hot) { hot_result(e, o, o.op->gets("tag")); return; }
		{ const std::string &fn = o.op->gets("fn"); if (fn.size() > 6 && fn.compare(fn.size() - 6, 6, "_index") == 0 && (*o.op)["s"][0].is_str() && (*o.op)["s"][0].str().compare(0, 6, "nosuch") == 0 && o.result.geti("v") != -1)
			e.violate("INDEX_OF_UNKNOWN_ID", "bidib_get_" + fn, "bidib_get_" + fn + "(" + (*o.op)["s"][0].str() + ") = " + std::to_string(o.result.geti("v")) + " for an id that is not configured (documented: -1)"); }
		const J &s = (*o.op)["s"];
		bool n = false, u = false;
		for (size_t i = 0; i < s.size(); i++) { if (s[i].is_null()) n = true; else if (s[i].str().compare(0, 6, "nosuch") == 0 || s[i].str() == "nofunc") u = true; }
		if (n) nulls++; else if (u) unknown++; else known++;
	}

	J single(const char *fn, const std::string &idv) { std::string nm = std::string("bidib_get_") + fn; sim::ApiScope api(nm.c_str()); return getters::call(fn, {idv}, J::arr()); }

	void compare_snapshot(Engine &e) {
		J st; { sim::ApiScope api("bidib_get_state"); st = getters::call("state", {}, J::arr()); }
		snapshot_cmp++;
		auto chk = [&](const char *kind, const std::string &idv, const J &snap, const J &one, const char *flag, const char *datakey) {
			if (!one.getb(flag)) e.violate("SNAPSHOT_VS_GETTER", kind, std::string(kind) + " " + idv + " is part of bidib_get_state but its single getter reports it as unknown");
			std::string d = snap.dump() == one[datakey].dump() ? "" : snap.dump() + " vs " + one[datakey].dump();
			if (!d.empty()) e.violate("SNAPSHOT_VS_GETTER", kind, std::string(kind) + " " + idv + ": bidib_get_state and the single getter disagree at a quiescent moment: " + d.substr(0, 600));
		};
		for (auto &kv : st["points_board"].o) chk("point_state", kv.first, kv.second, single("point_state", kv.first), "known", "data");
		for (auto &kv : st["points_dcc"].o) chk("point_state", kv.first, kv.second, single("point_state", kv.first), "known", "data");
		for (auto &kv : st["signals_board"].o) chk("signal_state", kv.first, kv.second, single("signal_state", kv.first), "known", "data");
		for (auto &kv : st["signals_dcc"].o) chk("signal_state", kv.first, kv.second, single("signal_state", kv.first), "known", "data");
		for (auto &kv : st["peripherals"].o) chk("peripheral_state", kv.first, kv.second, single("peripheral_state", kv.first), "avail", "data");
		for (auto &kv : st["segments"].o) chk("segment_state", kv.first, kv.second, single("segment_state", kv.first), "known", "data");
		for (auto &kv : st["reversers"].o) chk("reverser_state", kv.first, kv.second, single("reverser_state", kv.first), "avail", "data");
		for (auto &kv : st["trains"].o) chk("train_state", kv.first, kv.second, single("train_state", kv.first), "known", "data");
		for (auto &kv : st["boosters"].o) chk("booster_state", kv.first, kv.second, single("booster_state", kv.first), "known", "data");
		// the index getters name positions in the snapshot's arrays
		{
			sim::ApiScope api("bidib_get_state");
			t_bidib_track_state ts = bidib_get_state();
			auto bad = [&](const char *fn, const char *idv, size_t want, size_t got) { e.violate("SNAPSHOT_VS_GETTER", fn, std::string(fn) + "(" + idv + ") = " + std::to_string((long long) got) + " but the entity is element " + std::to_string(want) + " of the snapshot's array"); };
			for (size_t i = 0; i < ts.points_board_count; i++) { size_t g = bidib_get_point_state_index(ts.points_board[i].id); if (g != i) bad("bidib_get_point_state_index", ts.points_board[i].id, i, g); index_cmp++; }
			for (size_t i = 0; i < ts.signals_board_count; i++) { size_t g = bidib_get_signal_state_index(ts.signals_board[i].id); if (g != i) bad("bidib_get_signal_state_index", ts.signals_board[i].id, i, g); index_cmp++; }
			for (size_t i = 0; i < ts.segments_count; i++) { size_t g = bidib_get_segment_state_index(ts.segments[i].id); if (g != i) bad("bidib_get_segment_state_index", ts.segments[i].id, i, g); index_cmp++; }
			bidib_free_track_state(ts);
		}
		for (auto &kv : st["track_outputs"].o) { J one = single("track_output_state", kv.first); if (!one.getb("known") || one.geti("cs") != kv.second.geti("cs")) e.violate("SNAPSHOT_VS_GETTER", "track_output_state", "track output " + kv.first + ": bidib_get_state says " + kv.second.dump() + ", the single getter " + one.dump()); }
	}

	void at_quiescence(Engine &e, int s, int p) override {
		e.recheck_retained("after later state changes"); rechecks++;
		if (e.plan["sessions"][(size_t) s]["phases"][(size_t) p].getb("compare")) compare_snapshot(e);
	}
	void on_session_stop(Engine &e, int) override {
		e.recheck_retained("after bidib_stop"); rechecks++;
		released += e.retained.size();
		e.release_retained();
		// bidib_free_unique_id_list_query has no getter that produces its argument: a caller-built list (also the empty one) must be released by it
		for (size_t n : {(size_t) 0, (size_t) 3}) {
			t_bidib_unique_id_list_query q; q.length = n; q.unique_ids = n ? (t_bidib_unique_id_mod *) malloc(n * sizeof(t_bidib_unique_id_mod)) : NULL;
			if (n) memset(q.unique_ids, 0, n * sizeof(t_bidib_unique_id_mod));
			sim::ApiScope api("bidib_free_unique_id_list_query"); bidib_free_unique_id_list_query(q);
		}
	}
	void coverage(Engine &e, J &f) override {
		f.set("nontrivial", is_hot ? (hot_determined && hot_results > 0) : (known > 0 && unknown > 0 && nulls > 0));
		f.set("shape", (long long) (pc::shape_hash(e.plan) >> 1));
		J p = J::obj(); p.set("results_known_id", (long long) known); p.set("results_unknown_id", (long long) unknown); p.set("results_null_id", (long long) nulls);
		p.set("rechecks", (long long) rechecks); p.set("snapshot_vs_single_comparisons", (long long) snapshot_cmp); p.set("index_getter_vs_snapshot_position", (long long) index_cmp); p.set("results_freed", (long long) released);
		p.set("hot_entity_runs", (long long) (is_hot ? 1 : 0)); p.set("hot_entity_states_reproducible", (long long) (hot_determined ? 1 : 0)); p.set("hot_entity_concurrent_results_judged", (long long) hot_results);
		f.set("probes", p);
	}
};

}  // namespace

Prop *make_c17() { return new C17(); }

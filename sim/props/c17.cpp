// C17 — query results are initialised deep copies, safe to free for known / unknown ids.
#include "common.h"
#include "cfggen.h"
#include "apiops.h"

namespace {

struct C17 : Prop {
	const char *id() const override { return "C17"; }
	std::string rule() const override {
		return "plan = generated worlds; state histories (every state-bearing uplink message kind, user commands) during which 1-3 reader tasks call every getter with known "
		       "ids, unknown ids and NULL while the receiver updates the state; every result is retained. Oracle: (1) at acquisition each result is scanned raw for fields that "
		       "can only be uninitialised memory (bool not 0/1, enum out of range, pointer / integer made of the stack or heap fill pattern); (2) the canonical form of every "
		       "retained result is recomputed after each later phase and after bidib_stop and must not have changed (under ASan: a shallow copy of freed state is a "
		       "use-after-free); (3) every result is passed to its free function exactly once after the stop (invalid / double free under ASan); (4) at quiescent moments every "
		       "entity of bidib_get_state equals the corresponding single-entity getter field by field. non-trivial = results for known, unknown and NULL ids were retained "
		       "across >=1 state change and the stop; distinct = (shape, trace).";
	}
	J generate(Rng &r, const std::string &tier, uint64_t) override {
		bool thorough = tier == "thorough";
		J plan = J::obj();
		cfg::GenOpts o; o.max_boards = thorough ? 4 : 3; o.max_trains = 3; o.allow_absent = r.chance(400);
		cfg::World w = cfg::gen_world(r, o);
		cfg::install(plan, w, r);
		api::Ids ids = api::collect(w);
		J se = cfg::normal_session(0, r.chance(600) ? 0 : (int) r.range(5, 40));
		J phs = J::arr();
		{ J ph = J::obj(); ph.set("compare", true); J post = J::arr(); post.push("quiesce"); ph.set("post", post); phs.push(ph); }
		int nph = (int) r.range(1, thorough ? 6 : 4), maxt = 1;
		for (int p = 0; p < nph; p++) {
			J ph = J::obj(); J ev = J::arr();
			int t = 0;
			for (int i = 0, n = (int) r.range(1, 14); i < n; i++) { t += (int) r.range(0, 5000); ev.push(api::uplink_event(r, w, t)); }
			ph.set("bus", ev);
			int nt = (int) r.range(1, 3); maxt = std::max(maxt, nt);
			J tasks = J::arr();
			for (int q = 0; q < nt; q++) {
				J ops = J::arr();
				for (int i = 0, no = (int) r.range(1, thorough ? 14 : 8); i < no; i++) {
					uint64_t x = r.below(100);
					if (x < 75) { J g = api::get_op(r, ids, w); g.set("op", "getr"); ops.push(g); }
					else if (x < 88) { J h = api::hl_op(r, ids); ops.push(h); }
					else { J s = J::obj(); s.set("op", "sleep"); s.set("us", (int) r.range(100, 10000)); ops.push(s); }
				}
				tasks.push(ops);
			}
			ph.set("tasks", tasks); ph.set("compare", r.chance(600));
			J post = J::arr(); post.push("quiesce"); ph.set("post", post);
			phs.push(ph);
		}
		se.set("phases", phs);
		J ss = J::arr(); ss.push(se); plan.set("sessions", ss);
		J sc = sched_json(r, tier, maxt + 1, true); cfg::starve_after_startup(sc, r);
		plan.set("sched", sc);
		return plan;
	}

	cfg::World world;
	uint64_t known = 0, unknown = 0, nulls = 0, rechecks = 0, snapshot_cmp = 0, released = 0;

	void attach(Engine &e) override { world = cfg::from_json(e.plan["world"]); known = unknown = nulls = rechecks = snapshot_cmp = released = 0; }

	void after_op(Engine &, OpRec &o) override {
		if (o.op->gets("op") != "getr") return;
		const J &s = (*o.op)["s"];
		bool n = false, u = false;
		for (size_t i = 0; i < s.size(); i++) { if (s[i].is_null()) n = true; else if (s[i].str().compare(0, 6, "nosuch") == 0 || s[i].str() == "nofunc") u = true; }
		if (n) nulls++; else if (u) unknown++; else known++;
	}

	J single(const char *fn, const std::string &idv) { std::string nm = std::string("bidib_get_") + fn; sim::ApiScope api(nm.c_str()); return getters::call(fn, {idv}, J::arr()); }

	void compare_snapshot(Engine &e) {
		J st; { sim::ApiScope api("bidib_get_state"); st = getters::call("state", {}, J::arr()); }
		snapshot_cmp++;
		auto chk = [&](const char *kind, const std::string &idv, const J &snap, const J &one, const char *flag, const char *datakey) {
			if (!one.getb(flag)) e.violate("SNAPSHOT_VS_GETTER", kind, std::string(kind) + " " + idv + " is part of bidib_get_state but its single getter reports it as unknown");
			std::string d = snap.dump() == one[datakey].dump() ? "" : snap.dump() + " vs " + one[datakey].dump();
			if (!d.empty()) e.violate("SNAPSHOT_VS_GETTER", kind, std::string(kind) + " " + idv + ": bidib_get_state and the single getter disagree at a quiescent moment: " + d.substr(0, 600));
		};
		for (auto &kv : st["points_board"].o) chk("point_state", kv.first, kv.second, single("point_state", kv.first), "known", "data");
		for (auto &kv : st["points_dcc"].o) chk("point_state", kv.first, kv.second, single("point_state", kv.first), "known", "data");
		for (auto &kv : st["signals_board"].o) chk("signal_state", kv.first, kv.second, single("signal_state", kv.first), "known", "data");
		for (auto &kv : st["signals_dcc"].o) chk("signal_state", kv.first, kv.second, single("signal_state", kv.first), "known", "data");
		for (auto &kv : st["peripherals"].o) chk("peripheral_state", kv.first, kv.second, single("peripheral_state", kv.first), "avail", "data");
		for (auto &kv : st["segments"].o) chk("segment_state", kv.first, kv.second, single("segment_state", kv.first), "known", "data");
		for (auto &kv : st["reversers"].o) chk("reverser_state", kv.first, kv.second, single("reverser_state", kv.first), "avail", "data");
		for (auto &kv : st["trains"].o) chk("train_state", kv.first, kv.second, single("train_state", kv.first), "known", "data");
		for (auto &kv : st["boosters"].o) chk("booster_state", kv.first, kv.second, single("booster_state", kv.first), "known", "data");
		for (auto &kv : st["track_outputs"].o) { J one = single("track_output_state", kv.first); if (!one.getb("known") || one.geti("cs") != kv.second.geti("cs")) e.violate("SNAPSHOT_VS_GETTER", "track_output_state", "track output " + kv.first + ": bidib_get_state says " + kv.second.dump() + ", the single getter " + one.dump()); }
	}

	void at_quiescence(Engine &e, int s, int p) override {
		e.recheck_retained("after later state changes"); rechecks++;
		if (e.plan["sessions"][(size_t) s]["phases"][(size_t) p].getb("compare")) compare_snapshot(e);
	}
	void on_session_stop(Engine &e, int) override {
		e.recheck_retained("after bidib_stop"); rechecks++;
		released += e.retained.size();
		e.release_retained();
	}
	void coverage(Engine &e, J &f) override {
		f.set("nontrivial", known > 0 && unknown > 0 && nulls > 0);
		f.set("shape", (long long) (pc::shape_hash(e.plan) >> 1));
		J p = J::obj(); p.set("results_known_id", (long long) known); p.set("results_unknown_id", (long long) unknown); p.set("results_null_id", (long long) nulls);
		p.set("rechecks", (long long) rechecks); p.set("snapshot_vs_single_comparisons", (long long) snapshot_cmp); p.set("results_freed", (long long) released);
		f.set("probes", p);
	}
};

}  // namespace

Prop *make_c17() { return new C17(); }

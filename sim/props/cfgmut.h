// Structure-aware mutation of configuration files (shared by C13 and by C11's rejected-configuration sessions).
#pragma once
#include "common.h"
#include <sstream>
#include <map>

namespace cfgmut {

inline std::vector<std::string> split_lines(const std::string &s) { std::vector<std::string> v; std::stringstream ss(s); std::string l; while (std::getline(ss, l)) v.push_back(l); return v; }
inline std::string join_lines(const std::vector<std::string> &v) { std::string s; for (auto &l : v) { s += l; s += '\n'; } return s; }

inline std::string mutate(Rng &r, const std::string &txt, std::map<std::string, int> &kinds) {
	std::vector<std::string> L = split_lines(txt);
	int n = (int) r.range(1, 3);
	for (int k = 0; k < n; k++) {
		if (L.empty()) break;
		size_t i = r.below(L.size());
		switch (r.below(14)) {
			case 0: L.erase(L.begin() + (long) i); kinds["delete-line"]++; break;
			case 1: L.insert(L.begin() + (long) i, L[i]); kinds["duplicate-line"]++; break;
			case 2: { size_t j = r.below(L.size()); std::swap(L[i], L[j]); kinds["swap-lines"]++; break; }
			case 3: { // duplicate a block (an item starting with "- ")
				size_t a = i; while (a > 0 && L[a].find("- ") == std::string::npos) a--;
				size_t b = a + 1; size_t ind = L[a].find("- ");
				while (b < L.size() && (L[b].find_first_not_of(' ') > ind || L[b].find_first_not_of(' ') == std::string::npos)) b++;
				std::vector<std::string> blk(L.begin() + (long) a, L.begin() + (long) b);
				L.insert(L.begin() + (long) (r.coin() ? a : b), blk.begin(), blk.end()); kinds["duplicate-item"]++; break;
			}
			case 4: { size_t c = L[i].find(':'); if (c != std::string::npos && c > 0) { L[i][c - 1] = 'x'; } kinds["rename-key"]++; break; }
			case 5: { size_t c = L[i].find(": "); if (c != std::string::npos) { static const char *bad[] = {"0xZZ", "0x1", "0x123456789", "-1", "256", "", "[1, 2]", "{a: b}", "'", "0x", "~", "true", "999999999999999999999"}; L[i] = L[i].substr(0, c + 2) + bad[r.below(13)]; } kinds["bad-value"]++; break; }
			case 6: { L[i] = std::string((size_t) r.below(9), ' ') + L[i].substr(std::min(L[i].size(), L[i].find_first_not_of(' ') == std::string::npos ? 0 : L[i].find_first_not_of(' '))); kinds["reindent"]++; break; }
			case 7: { std::string g; for (size_t q = 0, m = (size_t) r.range(1, 30); q < m; q++) g += (char) r.range(1, 255); L.insert(L.begin() + (long) i, g); kinds["garbage-line"]++; break; }
			case 8: { // copy a value (e.g. an id or address) onto another line with the same key
				size_t c = L[i].find(": "); if (c == std::string::npos) break;
				std::string key = L[i].substr(L[i].find_first_not_of(" -"), c - L[i].find_first_not_of(" -"));
				std::vector<size_t> same; for (size_t q = 0; q < L.size(); q++) if (q != i && L[q].find(key + ": ") != std::string::npos) same.push_back(q);
				if (!same.empty()) { size_t q = same[r.below(same.size())]; size_t c2 = L[q].find(": "); L[q] = L[q].substr(0, c2 + 2) + L[i].substr(c + 2); }
				kinds["duplicate-value"]++; break;
			}
			case 9: { size_t c = L[i].find(':'); if (c != std::string::npos) L[i] = L[i].substr(0, c + 1); kinds["scalar-to-empty"]++; break; }
			case 10: { L[i] = L[i] + " # " + std::string((size_t) r.below(5), '!'); size_t c = L[i].find(": "); if (c != std::string::npos) L[i].insert(c + 2, "- "); kinds["scalar-to-seq"]++; break; }
			case 11: { L.resize(i); kinds["truncate-lines"]++; break; }
			case 12: { size_t a = L[i].find("- "); if (a != std::string::npos) L[i].erase(a, 2); kinds["remove-dash"]++; break; }
			case 13: { L.insert(L.begin() + (long) i, r.coin() ? "---" : "..."); kinds["document-marker"]++; break; }
		}
	}
	return join_lines(L);
}


}  // namespace cfgmut

// C07 (tracked state = fold of feedback messages + optimistic user commands) and
// C08 (train presence / position / orientation agree with segment address lists).
#include "common.h"
#include <set>
#include "cfggen.h"
#include "apiops.h"
#include "statemodel.h"

namespace {

// command messages (MSG_CS_DRIVE 0x64, MSG_CS_ACCESSORY 0x65) the library reports as held back and not yet released (its own debug log lines)
static int g_held_cmds = 0;
static void held_syslog_hook(int, const char *msg) {
	const char *p;
	if ((p = strstr(msg, "Enqueued type: 0x6")) && (p[18] == '4' || p[18] == '5')) g_held_cmds++;
	else if ((p = strstr(msg, "Dequeued type: 0x6")) && (p[18] == '4' || p[18] == '5')) { if (g_held_cmds > 0) g_held_cmds--; }
	else if (strstr(msg, "Node state table reset") || strstr(msg, "held messages forgotten")) g_held_cmds = 0;
}

struct LockEv { int task; uint64_t step; };
static std::vector<LockEv> *g_seg_log = nullptr;
static int g_seg_lock = -1;
static void seg_lock_hook(sim::LockInfo *l, char, sim::Task *t, bool acquire) {
	if (acquire && g_seg_log && l->id == g_seg_lock) g_seg_log->push_back(LockEv{t->id, sim::step()});
}

struct StateProp : Prop {
	bool is_c08;
	explicit StateProp(bool c08) : is_c08(c08) {}
	const char *id() const override { return is_c08 ? "C08" : "C07"; }
	std::string rule() const override {
		if (is_c08)
			return "plan = generated worlds; sequences of occupied / free / multiple / address reports over several boards (trains spanning segments, several trains per "
			       "segment, unknown addresses, accessory-typed entries), one message per quiescent step; 1-3 reader tasks call the five presence getters and bidib_get_state "
			       "at arbitrary points. Oracle: after every message on_track(t) <=> some segment lists t's address, position(t) = exactly those segments, orientation = one "
			       "reported with that address, a segment just reported free lists nothing (reference model); for concurrent readers a bidib_get_state snapshot taken while no "
			       "segment-mutating critical section ran must be internally consistent (trains vs. its own segment lists). non-trivial = a train spanned >=2 segments or a "
			       "segment listed >=2 trains; distinct = (shape, trace).";
		return "plan = generated worlds; every state-bearing uplink message kind with arbitrary field values (all current / voltage codes, every execution / ack code, address "
		       "lists incl. the 'free' form and accessory-typed entries, diagnostic lists in any order, messages for unknown nodes / ports / numbers / addresses), CRC-corrupted "
		       "copies and duplicates, interleaved at quiescent points with the user's drive / accessory / peripheral / reverser commands. Oracle: an executable reference model "
		       "of the track state (written from the BiDiB message descriptions and the public headers) is fed with every processed uplink message and every optimistic "
		       "command; at every quiescent point bidib_get_state must equal the model. non-trivial = >=1 unknown-target message and >=1 list-valued message; "
		       "distinct = (shape, trace).";
	}

	J generate(Rng &r, const std::string &tier, uint64_t) override {
		bool thorough = tier == "thorough";
		J plan = J::obj();
		cfg::GenOpts o; o.max_boards = thorough ? 4 : 3; o.max_trains = thorough ? 4 : 3; o.allow_absent = r.chance(300);
		cfg::World w = cfg::gen_world(r, o);
		if (is_c08) {
			// make sure there are segments and trains to talk about
			for (auto &b : w.boards) if (b.segs.size() < 2) for (int k = (int) b.segs.size(); k < 3; k++) { cfg::Segment g; g.id = b.id + "sx" + std::to_string(k); int a = 200 + k; for (;;) { bool used = false; for (auto &x : b.segs) if (x.addr == a) used = true; if (!used) break; a++; } g.addr = (uint8_t) a; b.segs.push_back(g); }
			while (w.trains.size() < 2) {
				cfg::Train t; t.id = "tx" + std::to_string(w.trains.size()); t.steps = 126;
				// a dcc address nobody else in the world uses (a collision makes the configuration invalid)
				for (int v = 0x2570;; v++) {
					bool used = false;
					for (auto &x : w.trains) if (x.addrl == (v & 0xFF) && x.addrh == (v >> 8)) used = true;
					for (auto &b : w.boards) for (const std::vector<cfg::DccAcc> *lst : {&b.points_dcc, &b.signals_dcc}) for (auto &a : *lst) if (a.addrl == (v & 0xFF) && a.addrh == (v >> 8)) used = true;
					if (!used) { t.addrl = (uint8_t) (v & 0xFF); t.addrh = (uint8_t) (v >> 8); break; }
				}
				w.trains.push_back(t);
			}
		}
		cfg::install(plan, w, r);
		api::Ids ids = api::collect(w);
		// C07, one run in twelve: low-level drive commands with a fast auto-flush and a calling thread that is descheduled at lock points - the message may
		// be flushed and acknowledged while the caller is still inside bidib_send_cs_drive; the acknowledgement must survive (fix 9872ba0)
		bool lldrive = !is_c08 && !w.trains.empty() && r.chance(80);
		J se = cfg::normal_session(0, lldrive ? (int) r.range(1, 3) : r.chance(700) ? 0 : (int) r.range(5, 40));
		J phs = J::arr();
		{ J ph = J::obj(); ph.set("check", true); J post = J::arr(); post.push("quiesce"); ph.set("post", post); phs.push(ph); }
		int nsteps = (int) r.range(3, thorough ? 40 : 20);
		if (lldrive) {
			nsteps = 0;
			for (int i = 0, n = (int) r.range(3, 7); i < n; i++) {
				const cfg::Train &t = w.trains[r.below(w.trains.size())];
				J op = pc::ll_op(r, *cat::find("cs_drive"), w.boards[0].addr);
				auto a = unhex(op.gets("a")); a[0] = t.addrl; a[1] = t.addrh; a[2] = 3; a[3] = (uint8_t) (1 | (r.below(32) << 1)); a[5] &= 0x1F; op.set("a", hex_of(a));
				J ph = J::obj(); J pre = J::arr(); pre.push(op); ph.set("pre", pre); ph.set("check", true); J post = J::arr(); post.push("quiesce"); ph.set("post", post); phs.push(ph);
			}
		}
		int maxt = 1;
		struct N { std::vector<uint8_t> addr; bool present; bool iface; };
		std::vector<N> ns; for (auto &b : w.boards) ns.push_back({b.addr, b.present, b.is_iface()});
		bool any_dense = false;
		cfg::World wcur = w;      // where the boards are now (feedback after a re-login comes from the new address)
		int relogin_next = -1;
		for (int i = 0; i < nsteps; i++) {
			J ph = J::obj();
			uint64_t x = r.below(100);
			if (relogin_next < 0 && r.chance(40)) {
				// the application resets the system while state is populated: everything returns to its initial value, then the start-up traffic counts again
				J pre = J::arr(); J ro = J::obj(); ro.set("op", "reset"); pre.push(ro); ph.set("pre", pre);
			} else if (relogin_next >= 0 || (r.chance(70) && ns.size() > 1)) {
				// a board leaves the bus / logs in again (possibly at another address): feedback follows the connectivity
				size_t k = relogin_next >= 0 ? (size_t) relogin_next : r.below(ns.size());
				bool forced = relogin_next >= 0; relogin_next = -1;
				if (ns[k].addr.empty()) continue;
				J ev = J::arr(); J e = J::obj(); e.set("at_us", 0); e.set("node", pc::jaddr(ns[k].addr));
				if (ns[k].present) {
					e.set("topo", "lost"); ns[k].present = false;
					// the notice itself is destroyed on the bus; the board logs in again in the very next step (mostly elsewhere) while the host still believes it connected
					if (!ns[k].iface && r.chance(200)) { J fs = J::arr(); J f = J::obj(); f.set("kind", "lose"); fs.push(f); e.set("faults", fs); relogin_next = (int) k; }
				}
				else {
					e.set("topo", "new");
					if (!ns[k].iface && r.chance(forced ? 850 : 500)) {
						// re-login at an address that is free now - preferably one another board has just left (the addresses are swapped)
						std::vector<uint8_t> na;
						for (auto &y : ns) if (!y.present && y.addr.size() == 1 && !y.iface && y.addr != ns[k].addr && r.coin()) { bool used = false; for (auto &z : ns) if (z.present && z.addr == y.addr) used = true; if (!used) na = y.addr; }
						if (na.empty()) { na = {(uint8_t) r.range(70, 120)}; for (auto &y : ns) if (y.addr == na) na.clear(); for (auto &u : w.unknown) if (u.addr == na) na.clear(); }
						if (!na.empty() && ns[k].addr.size() == 1) { e.set("as", pc::jaddr(na)); ns[k].addr = na; }
					}
					ns[k].present = true;
				}
				if (k < wcur.boards.size()) { wcur.boards[k].present = ns[k].present; wcur.boards[k].addr = ns[k].addr; }
				ev.push(e); ph.set("bus", ev);
			} else if (!is_c08 && x < 25) {
				// user command (sequential, followed by quiesce)
				J pre = J::arr();
				J op;
				uint64_t y = r.below(100);
				if (y < 80) { do { op = api::hl_op(r, ids); } while (op.gets("fn") == "ping" || op.gets("fn") == "identify" || op.gets("fn").find("version") != std::string::npos); }
				else if (y < 90) op = pc::ll_op(r, *cat::find("cs_drive"), w.boards[0].addr);
				else op = pc::ll_op(r, *cat::find("cs_accessory"), w.boards[r.below(w.boards.size())].addr);
				if (op.gets("op") == "ll" && op.gets("fn") == "cs_drive" && !w.trains.empty() && r.chance(800)) {
					auto a = unhex(op.gets("a")); const cfg::Train &t = w.trains[r.below(w.trains.size())]; a[0] = t.addrl; a[1] = t.addrh; op.set("a", hex_of(a));
				}
				pre.push(op);
				ph.set("pre", pre);
			} else if (is_c08 && x < 25 && !w.trains.empty()) {
				// storm: one segment's address list is rewritten again and again while readers ask for the position of the train concerned
				std::vector<std::pair<const cfg::Board *, const cfg::Segment *>> sgs;
				for (auto &b : w.boards) if (b.present) for (auto &g : b.segs) sgs.push_back({&b, &g});
				if (sgs.empty()) continue;
				auto sg = sgs[r.below(sgs.size())];
				const cfg::Train &tr = w.trains[r.below(w.trains.size())];
				J ev = J::arr(); int t = 0;
				bool dense = r.coin(); if (dense) any_dense = true;     // dense: one report per 5 ms grid instant for 50-200 ms, readers work in batches at every instant
				for (int k = 0, n = dense ? (int) r.range(10, 40) : (int) r.range(4, 14); k < n; k++) {
					J e = J::obj(); e.set("at_us", t); e.set("node", pc::jaddr(sg.first->addr)); e.set("type", (int) MSG_BM_ADDRESS);
					J d = J::arr(); d.push((int) sg.second->addr);
					uint64_t y = r.below(100);
					if (y < 25) { d.push(0); d.push(0); }
					else { d.push((int) tr.addrl); d.push((int) ((tr.addrh & 0x3F) | (r.coin() ? 0x80 : 0))); if (y > 70 && w.trains.size() > 1) { const cfg::Train &t2 = w.trains[r.below(w.trains.size())]; d.push((int) t2.addrl); d.push((int) (t2.addrh & 0x3F)); } }
					e.set("data", d); ev.push(e);
					t += dense ? 5000 : (int) r.range(0, 2) * 5000;
				}
				ph.set("bus", ev);
				int nt = (int) r.range(1, 3); maxt = std::max(maxt, nt);
				J tasks = J::arr();
				for (int q = 0; q < nt; q++) {
					J ops = J::arr();
					if (dense) { J sl = J::obj(); sl.set("op", "sleep"); sl.set("us", 5000); ops.push(sl); }
					for (int k = 0, no = dense ? (int) r.range(30, 90) : (int) r.range(6, 24); k < no; k++) {
						J g = J::obj(); J s = J::arr();
						uint64_t y = dense ? r.below(88) : r.below(100);
						if (dense && k % 4 == 3) y = 99;      // a batch of three calls, then the next grid instant
						if (y < 55) { g.set("op", "get"); g.set("fn", "train_position"); s.push(tr.id); }
						else if (y < 70) { g.set("op", "get"); g.set("fn", "train_on_track"); s.push(tr.id); }
						else if (y < 82) { g.set("op", "get"); g.set("fn", "segment_state"); s.push(sg.second->id); }
						else if (y < 88) { g.set("op", "get"); g.set("fn", "state"); }
						else { g.set("op", "sleep"); g.set("us", 5000); }
						g.set("s", s); g.set("i", J::arr()); ops.push(g);
					}
					tasks.push(ops);
				}
				ph.set("tasks", tasks);
			} else {
				J ev = J::arr();
				J e;
				if (is_c08) {
					// occupancy subset
					// (one event in eight is another report about segments or trains - confidence, current, speed, dynamic state: presence must not move)
					bool other = r.chance(125);
					do { e = api::uplink_event(r, wcur, 0); } while (other ? (e.geti("type") != MSG_BM_CONFIDENCE && e.geti("type") != MSG_BM_CURRENT && e.geti("type") != MSG_BM_SPEED && e.geti("type") != MSG_BM_DYN_STATE && e.geti("type") != MSG_CS_DRIVE_MANUAL)
					                                                      : (e.geti("type") != MSG_BM_OCC && e.geti("type") != MSG_BM_FREE && e.geti("type") != MSG_BM_MULTIPLE && e.geti("type") != MSG_BM_ADDRESS));
				} else e = api::uplink_event(r, wcur, 0);
				if (!is_c08) {
					uint64_t z = r.below(100);
					if (z < 8) { J f = J::arr(); J ff = J::obj(); ff.set("kind", "flip"); ff.set("a", (int) r.below(40)); ff.set("b", (int) r.below(8)); f.push(ff); e.set("faults", f); }   // corrupted copy: must change nothing
					else if (z < 14) { J f = J::arr(); J ff = J::obj(); ff.set("kind", "dup"); f.push(ff); e.set("faults", f); }
					else if (z < 20) { J f = J::arr(); J ff = J::obj(); ff.set("kind", "chunk"); ff.set("a", (int) r.below(20)); ff.set("b", (int) r.range(1, 30)); f.push(ff); e.set("faults", f); }
				}
				ev.push(e);
				ph.set("bus", ev);
				if (is_c08 && r.chance(500)) {
					int nt = (int) r.range(1, 3); maxt = std::max(maxt, nt);
					J tasks = J::arr();
					for (int q = 0; q < nt; q++) {
						J ops = J::arr();
						for (int k = 0, no = (int) r.range(1, 6); k < no; k++) {
							J g = J::obj(); g.set("op", "get"); J s = J::arr();
							uint64_t y = r.below(100);
							if (y < 35) g.set("fn", "state");
							else if (y < 50) { g.set("fn", "train_on_track"); s.push(api::pick(r, ids.trains, 50, 0)); }
							else if (y < 65) { g.set("fn", "train_position"); s.push(api::pick(r, ids.trains, 50, 0)); }
							else if (y < 75) g.set("fn", "trains_on_track");
							else if (y < 90) { g.set("fn", "segment_state"); s.push(api::pick(r, ids.segments, 50, 0)); }
							else { g.set("op", "sleep"); g.set("us", (int) r.range(100, 8000)); }
							g.set("s", s); g.set("i", J::arr());
							ops.push(g);
						}
						tasks.push(ops);
					}
					ph.set("tasks", tasks);
				}
			}
			ph.set("check", true);
			J post = J::arr(); post.push("quiesce"); ph.set("post", post);
			phs.push(ph);
		}
		se.set("phases", phs);
		J ss = J::arr(); ss.push(se); plan.set("sessions", ss);
		J sc = sched_json(r, tier, maxt, true); cfg::starve_after_startup(sc, r);
		// (dense storms are about what happens INSIDE a getter while the receiver rewrites a list: preemption at call boundaries in every such run)
		if (any_dense && sc.geti("fn_yield") < 40) sc.set("fn_yield", (int) r.range(40, 200));
		if (lldrive) { static const int mx[] = {12000, 30000}; sc.set("preempt_permille", (int) r.range(35, 60)); sc.set("preempt_max_us", mx[r.below(2)]); }
		plan.set("sched", sc);
		return plan;
	}

	sm::Model model;
	size_t wire_pos = 0, frame_pos = 0, ops_pos = 0;
	std::multiset<std::string> applied_early; uint64_t held_applied_early = 0;
	uint64_t compares_skipped_held = 0, checks = 0, corrupted_seen = 0, span2 = 0, shared2 = 0, snapshot_checks = 0, snapshot_skipped = 0;
	std::vector<LockEv> seg_log;
	int receiver = -1;

	void attach(Engine &e) override {
		model = sm::Model(); model.init(cfg::from_json(e.plan["world"]));
		wire_pos = frame_pos = ops_pos = 0; checks = corrupted_seen = span2 = shared2 = snapshot_checks = snapshot_skipped = 0; seg_log.clear(); receiver = -1;
		vers.clear(); pending_reads.clear(); reader_results_judged = reader_results_overlapping_update = segment_results_judged = snapshot_order_judged = 0; before_wire = nullptr; started = reset_pending = false; resets_folded = 0; reset_wire_from = 0;
		g_seg_log = &seg_log; sim::hooks().on_lock = seg_lock_hook;
		g_held_cmds = 0; compares_skipped_held = 0; applied_early.clear(); held_applied_early = 0; sim::hooks().on_syslog = held_syslog_hook;
	}
	void before_stop(Engine &, int) override { g_seg_log = nullptr; sim::hooks().on_lock = nullptr; }

	// feed the model with everything that happened, in global step order
	void ingest(Engine &e) {
		for (;;) {
			bool has_w = wire_pos < e.bus.wire.size();
			// next processed frame
			while (frame_pos < e.bus.done.size() && e.bus.done[frame_pos].processed && (e.bus.done[frame_pos].corrupted || e.bus.done[frame_pos].msgs.empty())) { if (e.bus.done[frame_pos].corrupted) corrupted_seen++; frame_pos++; }
			bool has_f = frame_pos < e.bus.done.size() && e.bus.done[frame_pos].processed;
			if (!has_w && !has_f) break;
			uint64_t ws = has_w ? e.bus.wire[wire_pos].step : UINT64_MAX, fs = has_f ? e.bus.done[frame_pos].last_read_step : UINT64_MAX;
			if (ws <= fs) {
				if (before_wire && wire_pos >= before_wire_from) { before_wire(); before_wire = nullptr; }
				const ref::Msg &wm = e.bus.wire[wire_pos].msg;
				// a reset issued by the application: the library wipes its track state after the 1.5 s login wait, right before it reads the node table
				if (wm.type == MSG_SYS_RESET && started) reset_pending = true;
				else if (reset_pending && wm.type == MSG_NODETAB_GETALL) { reset_pending = false; model.reset_state(); model.set_connected_from_tree(e.bus); resets_folded++; reset_wire_from = wire_pos; }
				// (a low-level command whose effect was applied when the call returned because the library was holding the message back)
				{ auto ae = applied_early.find(pc::msg_key(wm)); if (ae != applied_early.end()) { applied_early.erase(ae); wire_pos++; continue; } }
				model.apply_downlink(wm); wire_pos++;
			}
			else {
				for (auto &m : e.bus.done[frame_pos].msgs) { if (m.type == MSG_NODE_NEW || m.type == MSG_NODE_LOST) topo_events++; model.apply_uplink(m); }
				if (is_c08 && !vers.empty()) { vers.back().end = e.bus.done[frame_pos].processed_step; Ver v; v.start = e.bus.done[frame_pos].last_read_step; v.pos = presence_now(); v.seg = segs_now(); vers.push_back(v); }
				frame_pos++;
			}
		}
	}
	// optimistic effect of a command that is not carried by its message: takes place before the command's own message (and thus
	// before any answer to it), even if the calling thread returns only after the answer has been processed
	std::function<void()> before_wire; size_t before_wire_from = 0;
	bool started = false, reset_pending = false; uint64_t resets_folded = 0; size_t reset_wire_from = 0;
	// initial values of dcc accessories: the start-up (and a reset) call the same high-level commands
	void initial_dcc(Engine &e, size_t wire_from) {
		for (auto &b : model.w.boards) {
			if (!model.conn[b.id].connected) continue;
			for (const std::vector<cfg::DccAcc> *v : {&b.points_dcc, &b.signals_dcc}) for (auto &a : *v) if (!a.initial.empty()) {
				model.set_dcc_state_id(a.id, a.initial);
				// (the initial commands may still sit behind the response budget when the call returns)
				int nports = 0; for (auto &as : a.aspects) if (as.id == a.initial) nports = (int) as.ports.size();
				int seen = 0; for (size_t i = wire_from; i < e.bus.wire.size(); i++) { auto &wr = e.bus.wire[i]; if (wr.msg.type == MSG_CS_ACCESSORY && wr.msg.data.size() >= 2 && wr.msg.data[0] == a.addrl && wr.msg.data[1] == a.addrh) seen++; }
				model.pending_hl[a.id] += std::max(0, nports - seen);
			}
		}
	}

	// ---- C08, concurrent readers: presence versions. Version k = presence as of uplink frame k; it can be what a reader sees from the
	// delivery of frame k (start) until frame k+1 is known to be processed (end). A reader's result must equal some version whose
	// window overlaps the call: the updates are atomic under the library's locks, anything else is a torn or stale view.
	struct Ver { uint64_t start = 0, end = UINT64_MAX; std::map<std::string, std::vector<std::string>> pos; std::map<std::string, std::string> seg; };
	std::map<std::string, std::string> segs_now() { std::map<std::string, std::string> m; J sj = model.to_json()["segments"]; for (auto &kv : sj.o) m[kv.first] = kv.second.dump(); return m; }
	std::vector<Ver> vers;
	struct PendingRead { std::string fn, train; J result; uint64_t inv, ret; };
	std::vector<PendingRead> pending_reads;
	uint64_t reader_results_judged = 0, reader_results_overlapping_update = 0, topo_events = 0, segment_results_judged = 0, snapshot_order_judged = 0;
	std::map<std::string, std::vector<std::string>> presence_now() {
		std::map<std::string, std::vector<std::string>> p;
		for (auto &t : model.w.trains) { std::vector<std::string> segs; for (auto &b : model.w.boards) for (auto &g : b.segs) for (auto &a : model.sg[g.id].addrs) if (a[0] == t.addrl && a[1] == t.addrh) segs.push_back(g.id); std::sort(segs.begin(), segs.end()); segs.erase(std::unique(segs.begin(), segs.end()), segs.end()); p[t.id] = segs; }
		return p;
	}
	void judge_readers(Engine &e) {
		for (auto &pr : pending_reads) {
			if (pr.fn == "state") {
				// A snapshot copies the segment table, then the train table, each under its own lock: what it says about trains (derived from the segment
				// lists) may be newer than its segment lists, never older. With the versions that can have been current during the call: some version
				// that matches the train part must be at least as new as some version that matches the segment part.
				std::vector<size_t> cand, S, T;
				for (size_t i = 0; i < vers.size(); i++) if (vers[i].start <= pr.ret && vers[i].end >= pr.inv) cand.push_back(i);
				if (cand.size() < 2) continue;
				for (size_t i : cand) {
					bool seg_ok = true, tr_ok = true;
					for (auto &kv : vers[i].seg) if (!pr.result["segments"].has(kv.first) || pr.result["segments"][kv.first].dump() != kv.second) { seg_ok = false; break; }
					for (auto &kv : vers[i].pos) if (pr.result["trains"].has(kv.first) && pr.result["trains"][kv.first].getb("on_track") != !kv.second.empty()) { tr_ok = false; break; }
					if (seg_ok) S.push_back(i);
					if (tr_ok) T.push_back(i);
				}
				if (S.empty() || T.empty()) continue;      // (not judged here: another update kind overlapped)
				snapshot_order_judged++;
				if (T.back() < S.front())
					e.violate("SNAPSHOT_TRAINS_OLDER_THAN_SEGMENTS", "bidib_get_state", "a snapshot taken during occupancy updates (steps " + std::to_string(pr.inv) + ".." + std::to_string(pr.ret) + ") carries the segment lists of update #" + std::to_string(S.front()) +
					          " or later but train presence as of update #" + std::to_string(T.back()) + " or earlier: what is derived from the segment lists lags behind them");
				continue;
			}
			if (pr.fn == "segment_state") {
				// a concurrent copy of one segment's state must be the state the segment had at some moment of the call
				if (!pr.result.getb("known")) continue;
				std::vector<const Ver *> cand;
				for (auto &v : vers) if (v.start <= pr.ret && v.end >= pr.inv && v.seg.count(pr.train)) cand.push_back(&v);
				if (cand.empty()) continue;
				reader_results_judged++; segment_results_judged++;
				if (cand.size() > 1) reader_results_overlapping_update++;
				std::string got = pr.result["data"].dump(); bool ok = false; std::string allowed;
				for (const Ver *v : cand) { if (v->seg.at(pr.train) == got) ok = true; if (allowed.size() < 900) allowed += v->seg.at(pr.train) + " "; }
				if (!ok) e.violate("READER_SAW_IMPOSSIBLE_SEGMENT_STATE", "bidib_get_segment_state", "concurrent bidib_get_segment_state(" + pr.train + ") (steps " + std::to_string(pr.inv) + ".." + std::to_string(pr.ret) + ") returned " + got.substr(0, 400) +
				                     ", but the states the segment had at any moment of the call are " + allowed + "- a torn or stale copy of the decoder list");
				continue;
			}
			if (!model.w.train(pr.train)) continue;
			std::vector<const Ver *> cand;
			for (auto &v : vers) if (v.start <= pr.ret && v.end >= pr.inv) cand.push_back(&v);
			if (cand.empty()) continue;
			reader_results_judged++;
			if (cand.size() > 1) reader_results_overlapping_update++;
			bool ok = false; std::string allowed;
			std::vector<std::string> got;
			if (pr.fn == "train_position") { for (size_t i = 0; i < pr.result["segments"].size(); i++) got.push_back(pr.result["segments"][i].str()); std::sort(got.begin(), got.end()); got.erase(std::unique(got.begin(), got.end()), got.end()); }
			for (const Ver *v : cand) {
				const auto &segs = v->pos.at(pr.train);
				if (pr.fn == "train_position" ? got == segs : pr.result.getb("v") == !segs.empty()) ok = true;
				allowed += "["; for (auto &x : segs) allowed += x + " "; allowed += "] ";
			}
			if (!ok) {
				std::string g; if (pr.fn == "train_position") { g = "["; for (auto &x : got) g += x + " "; g += "]"; } else g = pr.result.getb("v") ? "true" : "false";
				e.violate("READER_SAW_IMPOSSIBLE_PRESENCE", "bidib_get_" + pr.fn, "concurrent bidib_get_" + pr.fn + "(" + pr.train + ") (steps " + std::to_string(pr.inv) + ".." + std::to_string(pr.ret) + ") returned " + g +
				          ", but the segment listings that held at any moment of the call put the train on " + allowed + "- a torn or stale view of the address lists");
			}
		}
		pending_reads.clear();
	}

	void on_session_start(Engine &e, int, int ret) override {
		if (ret != 0) return;
		const auto &names = sim::lock_names();
		for (size_t k = 0; k < names.size(); k++) if (names[k] == "trackstate_segments_mutex") g_seg_lock = (int) k;
		for (int i = 0; i < sim::task_count(); i++) if (sim::task(i)->name.find("bidib_auto_receive") != std::string::npos) receiver = i;
		model.set_connected_from_tree(e.bus);
		// messages that arrived before the library reset its state (during the connection probe) do not count
		ingest(e);
		initial_dcc(e, 0);
		started = true;
	}

	void after_op(Engine &e, OpRec &o) override {
		const std::string &k = o.op->gets("op");
		if (k == "reset") { ingest(e); initial_dcc(e, reset_wire_from); if (is_c08 && !vers.empty()) { vers.back().end = sim::step(); Ver v; v.start = o.inv_step; v.pos = presence_now(); v.seg = segs_now(); vers.push_back(v); } return; }
		if (is_c08 && k == "get" && o.op->gets("fn") == "state") {
			if (vers.empty()) { ingest(e); Ver v; v.pos = presence_now(); v.seg = segs_now(); vers.push_back(v); }
			pending_reads.push_back(PendingRead{"state", "", o.result, o.inv_step, o.ret_step});
		}
		if (is_c08 && k == "get" && (o.op->gets("fn") == "train_position" || o.op->gets("fn") == "train_on_track" || o.op->gets("fn") == "segment_state") && (*o.op)["s"].size() > 0 && (*o.op)["s"][0].is_str()) {
			if (vers.empty()) { ingest(e); Ver v; v.pos = presence_now(); v.seg = segs_now(); vers.push_back(v); }
			pending_reads.push_back(PendingRead{o.op->gets("fn"), (*o.op)["s"][0].str(), o.result, o.inv_step, o.ret_step});
		}
		if (k == "ll" && (o.op->gets("fn") == "cs_drive" || o.op->gets("fn") == "cs_accessory")) {
			// the optimistic update does not wait for the transmission: a command that is held back takes effect in the model now, not when it is released
			ingest(e);
			ref::Msg want = pc::ll_expected(*o.op); std::string key = pc::msg_key(want); bool on_wire = false;
			for (size_t i = o.wire_before; i < e.bus.wire.size(); i++) if (pc::msg_key(e.bus.wire[i].msg) == key) on_wire = true;
			if (!on_wire && g_held_cmds > 0) { model.apply_downlink(want); applied_early.insert(key); g_held_cmds--; held_applied_early++; }
		}
		if (k == "hl" && o.ret == 0) {
			const std::string &fn = o.op->gets("fn");
			const J &s = (*o.op)["s"];
			bool rev_done = false;
			if (fn == "request_reverser_state") { before_wire_from = o.wire_before; before_wire = [&]() { model.request_reverser(s[0].str()); rev_done = true; }; }
			ingest(e);
			before_wire = nullptr;
			if (fn == "switch_point" || fn == "set_signal") {
				model.set_dcc_state_id(s[0].str(), s[1].str());
				// port messages of this command that have not reached the wire yet
				for (auto &b : model.w.boards) for (const std::vector<cfg::DccAcc> *v : {&b.points_dcc, &b.signals_dcc}) for (auto &a : *v) if (a.id == s[0].str()) {
					int nports = 0; for (auto &as : a.aspects) if (as.id == s[1].str()) nports = (int) as.ports.size();
					int seen = 0; for (size_t i = o.wire_before; i < e.bus.wire.size(); i++) { const ref::Msg &m = e.bus.wire[i].msg; if (m.type == MSG_CS_ACCESSORY && m.data.size() >= 2 && m.data[0] == a.addrl && m.data[1] == a.addrh) seen++; }
					model.pending_hl[a.id] += std::max(0, nports - seen);
				}
			}
			if (fn == "request_reverser_state" && !rev_done) model.request_reverser(s[0].str());
		}
		if (is_c08 && k == "get") check_reader(e, o);
	}

	J lib_state() { sim::ApiScope api("bidib_get_state"); return getters::call("state", {}, J::arr()); }

	void compare(Engine &e, const char *when) {
		// A drive / accessory command that the library is holding back (response budget of the addressee blocked, e.g. by requests a node left
		// unanswered when it was lost) has already changed the tracked state - the optimistic update does not wait for the transmission - but is not
		// on the wire yet, which is where the model takes commands from. Such moments are not compared (counted).
		if (g_held_cmds > 0) { compares_skipped_held++; return; }
		J got = lib_state();
		J want = model.to_json();
		// orientation: when the listings disagree any reported one is acceptable
		for (auto &kv : model.tr) if (kv.second.possible_orient.size() > 1) {
			for (J *side : {&got, &want}) { J &t = const_cast<J &>((*side)["trains"]); for (auto &x : t.o) if (x.first == kv.first) { J n = J::obj(); for (auto &f : x.second.o) if (f.first != "orient") n.set(f.first, f.second); x.second = n; } }
		}
		if (is_c08) {
			// only the presence-related parts
			J g2 = J::obj(), w2 = J::obj();
			for (J *pr : {&got, &want}) {
				J &dst = pr == &got ? g2 : w2;
				J segs = J::obj(); for (auto &x : (*pr)["segments"].o) { J o = J::obj(); o.set("occ", x.second["occ"]); o.set("addrs", x.second["addrs"]); segs.set(x.first, o); } dst.set("segments", segs);
				J trs = J::obj(); for (auto &x : (*pr)["trains"].o) { J o = J::obj(); o.set("on_track", x.second["on_track"]); if (x.second.has("orient")) o.set("orient", x.second["orient"]); trs.set(x.first, o); } dst.set("trains", trs);
			}
			got = g2; want = w2;
		}
		checks++;
		std::string d = sm::diff(got, want);
		if (!d.empty()) {
			std::string entity = d.substr(0, d.find(':'));
			std::string kind = entity.substr(0, entity.find('/', 1));
			e.violate(is_c08 ? "PRESENCE_MISMATCH" : "STATE_MISMATCH", kind, std::string(when) + ": bidib_get_state differs from the reference fold at " + d + " (library vs model)");
		}
		if (is_c08) {
			// single getters: position = exactly the listing segments
			for (auto &t : model.w.trains) {
				std::vector<std::string> segs;
				for (auto &b : model.w.boards) for (auto &g : b.segs) for (auto &a : model.sg[g.id].addrs) if (a[0] == t.addrl && a[1] == t.addrh) segs.push_back(g.id);
				J pos; { sim::ApiScope api("bidib_get_train_position"); pos = getters::call("train_position", {t.id}, J::arr()); }
				J ont; { sim::ApiScope api("bidib_get_train_on_track"); ont = getters::call("train_on_track", {t.id}, J::arr()); }
				std::vector<std::string> gp; for (size_t i = 0; i < pos["segments"].size(); i++) gp.push_back(pos["segments"][i].str());
				if (gp != segs) { std::string dd = "train " + t.id + ": bidib_get_train_position = ["; for (auto &x : gp) dd += x + " "; dd += "] but the segments listing its address are ["; for (auto &x : segs) dd += x + " "; dd += "]"; e.violate("POSITION_MISMATCH", "train_position", dd); }
				if (ont.getb("v") != !segs.empty()) e.violate("PRESENCE_MISMATCH", "train_on_track", "train " + t.id + ": bidib_get_train_on_track = " + (ont.getb("v") ? "true" : "false") + " but " + std::to_string(segs.size()) + " segments list its address");
				if (segs.size() >= 2) span2++;
			}
			for (auto &kv : model.sg) if (kv.second.addrs.size() >= 2) shared2++;
		}
	}

	// C08: a snapshot taken by a concurrent reader must be internally consistent when no segment update ran during it
	void check_reader(Engine &e, const OpRec &o) {
		if (o.op->gets("fn") != "state") return;
		for (auto &ev : seg_log) if (ev.task == receiver && ev.step >= o.inv_step && ev.step <= o.ret_step) { snapshot_skipped++; return; }
		snapshot_checks++;
		const J &st = o.result;
		for (auto &t : model.w.trains) {
			bool listed = false;
			for (auto &x : st["segments"].o) for (size_t i = 0; i < x.second["addrs"].size(); i++) if (x.second["addrs"][i][0].num() == t.addrl && x.second["addrs"][i][1].num() == t.addrh) listed = true;
			bool on = st["trains"][t.id].getb("on_track");
			if (on != listed)
				e.violate("SNAPSHOT_INCONSISTENT", "bidib_get_state", "a snapshot taken while no occupancy update ran reports train " + t.id + (on ? " on track" : " not on track") + " although its own segment lists " + (listed ? "contain" : "do not contain") + " the train's address");
		}
	}

	void at_quiescence(Engine &e, int s, int p) override {
		ingest(e);
		if (is_c08) { if (vers.empty()) { Ver v; v.pos = presence_now(); v.seg = segs_now(); vers.push_back(v); } judge_readers(e); }
		if (e.plan["sessions"][(size_t) s]["phases"][(size_t) p].getb("check")) compare(e, p == 0 ? "after start-up" : "after a feedback message / command");
	}

	void coverage(Engine &e, J &f) override {
		f.set("nontrivial", is_c08 ? (span2 > 0 || shared2 > 0) : (model.unknown_targets > 0 && model.list_valued > 0));
		f.set("shape", (long long) (pc::shape_hash(e.plan) >> 1));
		J p = J::obj(); p.set("state_comparisons", (long long) checks); p.set("unknown_target_messages", (long long) model.unknown_targets); p.set("list_valued_messages", (long long) model.list_valued);
		if (!is_c08) p.set("corrupted_copies_delivered", (long long) corrupted_seen); p.set("application_resets_folded", (long long) resets_folded); if (compares_skipped_held) p.set("comparisons_skipped_while_a_command_was_held_back", (long long) compares_skipped_held); if (held_applied_early) p.set("held_back_low_level_commands_applied_at_call_time", (long long) held_applied_early); p.set("topology_notices", (long long) topo_events);
		if (is_c08) { p.set("train_spanning_two_segments", (long long) span2); p.set("segment_with_two_addresses", (long long) shared2); p.set("consistent_snapshots_checked", (long long) snapshot_checks); p.set("concurrent_presence_results_judged", (long long) reader_results_judged); p.set("concurrent_presence_results_overlapping_an_update", (long long) reader_results_overlapping_update); p.set("snapshots_overlapping_an_update", (long long) snapshot_skipped); p.set("concurrent_segment_state_results_judged", (long long) segment_results_judged); p.set("snapshots_overlapping_updates_judged_for_order", (long long) snapshot_order_judged); }
		f.set("probes", p);
	}
};

}  // namespace

Prop *make_c07() { return new StateProp(false); }
Prop *make_c08() { return new StateProp(true); }

#include "../engine.h"
#define P(x) Prop *make_##x();
P(c01) P(c02) P(c03) P(c04) P(c05) P(c06) P(c07) P(c08) P(c09) P(c10) P(c11) P(c12) P(c13) P(c15) P(c16) P(c17) P(c19) P(c20)
#undef P
Prop *make_prop(const std::string &id) {
	if (id == "C01") return make_c01();
	if (id == "C02") return make_c02();
	if (id == "C03") return make_c03();
	if (id == "C04") return make_c04();
	if (id == "C05") return make_c05();
	if (id == "C06") return make_c06();
	if (id == "C07") return make_c07();
	if (id == "C08") return make_c08();
	if (id == "C09") return make_c09();
	if (id == "C10") return make_c10();
	if (id == "C11") return make_c11();
	if (id == "C12") return make_c12();
	if (id == "C13") return make_c13();
	if (id == "C15") return make_c15();
	if (id == "C16") return make_c16();
	if (id == "C17") return make_c17();
	if (id == "C19") return make_c19();
	if (id == "C20") return make_c20();
	return nullptr;
}

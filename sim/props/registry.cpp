#include "../engine.h"
Prop *make_c01();
Prop *make_prop(const std::string &id) {
	if (id == "C01") return make_c01();
	return nullptr;
}

// Generators for high-level API calls and getters over a world, with argument classes
// (valid id, unknown id, NULL, disconnected board, undefined aspect, out-of-range value).
#pragma once
#include "cfggen.h"

namespace api {

inline J S(std::initializer_list<const char *> v) { J a = J::arr(); for (auto x : v) { if (x) a.push(x); else a.push(J()); } return a; }
inline J strs(const std::vector<std::string> &v, const std::vector<bool> &isnull = {}) { J a = J::arr(); for (size_t i = 0; i < v.size(); i++) { if (i < isnull.size() && isnull[i]) a.push(J()); else a.push(v[i]); } return a; }

struct Ids {
	std::vector<std::string> boards, points, signals, periphs, segments, reversers, trains, tos, boosters;
	std::map<std::string, std::vector<std::string>> aspects;        // accessory/peripheral id -> aspect ids
	std::map<std::string, std::vector<std::string>> train_periphs;  // train -> peripheral ids
	std::map<std::string, std::string> rev_board;
};
inline Ids collect(const cfg::World &w) {
	Ids d;
	for (auto &b : w.boards) {
		d.boards.push_back(b.id);
		if (b.track_output()) d.tos.push_back(b.id);
		if (b.booster()) d.boosters.push_back(b.id);
		for (auto &a : b.points_board) { d.points.push_back(a.id); for (auto &x : a.aspects) d.aspects[a.id].push_back(x.id); }
		for (auto &a : b.signals_board) { d.signals.push_back(a.id); for (auto &x : a.aspects) d.aspects[a.id].push_back(x.id); }
		for (auto &a : b.points_dcc) { d.points.push_back(a.id); for (auto &x : a.aspects) d.aspects[a.id].push_back(x.id); }
		for (auto &a : b.signals_dcc) { d.signals.push_back(a.id); for (auto &x : a.aspects) d.aspects[a.id].push_back(x.id); }
		for (auto &a : b.periphs) { d.periphs.push_back(a.id); for (auto &x : a.aspects) d.aspects[a.id].push_back(x.id); }
		for (auto &g : b.segs) d.segments.push_back(g.id);
		for (auto &g : b.revs) { d.reversers.push_back(g.id); d.rev_board[g.id] = b.id; }
	}
	for (auto &t : w.trains) { d.trains.push_back(t.id); for (auto &p : t.periphs) d.train_periphs[t.id].push_back(p.id); }
	return d;
}

// pick an id of the class: mostly valid, sometimes unknown, sometimes NULL (encoded as JSON null)
// an id that is NOT in `v` but close to one that is: a configured id extended by a character, or cut by one
inline std::string near_miss(Rng &r, const std::vector<std::string> &v, const char *fallback) {
	if (v.empty()) return fallback;
	const std::string &b = v[r.below(v.size())];
	std::string c = r.coin() ? b + "x" : (b.size() > 1 ? b.substr(0, b.size() - 1) : b + "0");
	for (auto &x : v) if (x == c) return fallback;
	return c;
}
inline J pick(Rng &r, const std::vector<std::string> &v, int p_unknown = 120, int p_null = 50) {
	uint64_t x = r.below(1000);
	if (x < (uint64_t) p_null) return J();
	if (v.empty() || x < (uint64_t) (p_null + p_unknown)) { if (r.chance(300)) return J(near_miss(r, v, "nosuch9")); return J(std::string("nosuch") + std::to_string(r.below(3))); }
	return J(v[r.below(v.size())]);
}
inline J pick_aspect(Rng &r, const Ids &d, const J &acc) {
	uint64_t x = r.below(1000);
	if (x < 40) return J();
	if (!acc.is_str() || !d.aspects.count(acc.s) || x < 100) return J(std::string("noaspect"));
	const auto &v = d.aspects.at(acc.s);
	if (x < 180) return J(near_miss(r, v, "noaspect"));
	return J(v[r.below(v.size())]);
}

inline J hl_op(Rng &r, const Ids &d) {
	J o = J::obj(); o.set("op", "hl");
	J s = J::arr(); J i = J::arr();
	switch (r.below(15)) {
		case 0: { o.set("fn", "switch_point"); J a = pick(r, d.points); s.push(a); s.push(pick_aspect(r, d, a)); break; }
		case 1: { o.set("fn", "set_signal"); J a = pick(r, d.signals); s.push(a); s.push(pick_aspect(r, d, a)); break; }
		case 2: { o.set("fn", "set_peripheral"); J a = pick(r, d.periphs); s.push(a); s.push(pick_aspect(r, d, a)); break; }
		case 3: case 4: { o.set("fn", "set_train_speed"); s.push(pick(r, d.trains)); s.push(pick(r, r.chance(850) ? d.tos : d.boards)); i.push(r.chance(900) ? (int) r.range(-126, 126) : (int) r.range(-300, 300)); break; }
		case 5: { o.set("fn", "set_calibrated_train_speed"); s.push(pick(r, d.trains)); s.push(pick(r, d.tos)); i.push(r.chance(900) ? (int) r.range(-9, 9) : (int) r.range(-20, 20)); break; }
		case 6: { o.set("fn", "emergency_stop_train"); s.push(pick(r, d.trains)); s.push(pick(r, d.tos)); break; }
		case 7: case 8: {
			o.set("fn", "set_train_peripheral"); J t = pick(r, d.trains); s.push(t);
			if (t.is_str() && d.train_periphs.count(t.s) && !d.train_periphs.at(t.s).empty() && r.chance(850)) s.push(d.train_periphs.at(t.s)[r.below(d.train_periphs.at(t.s).size())]); else s.push(r.chance(200) ? J() : J("nofunc"));
			s.push(pick(r, d.tos)); i.push((int) r.below(2)); break;
		}
		case 9: { o.set("fn", "set_booster_power_state"); s.push(pick(r, r.chance(800) ? d.boosters : d.boards)); i.push((int) r.below(2)); break; }
		case 10: { o.set("fn", "set_track_output_state"); s.push(pick(r, r.chance(800) ? d.tos : d.boards)); static const int st[] = {0, 1, 2, 3, 4, 8}; i.push(st[r.below(6)]); break; }
		case 11: { o.set("fn", "request_reverser_state"); J rv = pick(r, d.reversers); s.push(rv); if (rv.is_str() && d.rev_board.count(rv.s) && r.chance(850)) s.push(d.rev_board.at(rv.s)); else s.push(pick(r, d.boards)); break; }
		case 12: { o.set("fn", "ping"); s.push(pick(r, d.boards)); i.push((int) r.byte()); break; }
		case 13: { o.set("fn", "identify"); s.push(pick(r, d.boards)); i.push((int) r.below(2)); break; }
		case 14: { o.set("fn", r.coin() ? "get_protocol_version" : "get_software_version"); s.push(pick(r, d.boards)); break; }
	}
	o.set("s", s); o.set("i", i);
	return o;
}

inline J get_op(Rng &r, const Ids &d, const cfg::World &w) {
	J o = J::obj(); o.set("op", "get");
	J s = J::arr(); J i = J::arr();
	static const char *lists[] = {"boards", "boards_connected", "connected_points", "connected_signals", "connected_peripherals", "connected_segments", "connected_reversers",
	                              "connected_boosters", "boosters", "track_outputs", "connected_track_outputs", "trains", "trains_on_track"};
	switch (r.below(27)) {
		case 0: case 1: o.set("fn", "state"); break;
		case 2: o.set("fn", "point_state"); s.push(pick(r, d.points)); break;
		case 3: o.set("fn", "signal_state"); s.push(pick(r, d.signals)); break;
		case 4: o.set("fn", "peripheral_state"); s.push(pick(r, d.periphs)); break;
		case 5: case 6: o.set("fn", "segment_state"); s.push(pick(r, d.segments)); break;
		case 7: o.set("fn", "reverser_state"); s.push(pick(r, d.reversers)); break;
		case 8: o.set("fn", lists[r.below(13)]); break;
		case 9: { static const char *bl[] = {"board_points", "board_signals", "board_peripherals", "board_segments", "board_reversers", "board_features", "board_connected", "nodeaddr", "uniqueid"}; o.set("fn", bl[r.below(9)]); s.push(pick(r, d.boards)); break; }
		case 10: o.set("fn", "booster_state"); s.push(pick(r, r.chance(800) ? d.boosters : d.boards)); break;
		case 11: o.set("fn", "track_output_state"); s.push(pick(r, r.chance(800) ? d.tos : d.boards)); break;
		case 12: case 13: o.set("fn", "train_state"); s.push(pick(r, d.trains)); break;
		case 14: o.set("fn", "train_position"); s.push(pick(r, d.trains)); break;
		case 15: o.set("fn", "train_on_track"); s.push(pick(r, d.trains)); break;
		case 16: o.set("fn", "train_speed_step"); s.push(pick(r, d.trains)); break;
		case 17: o.set("fn", "train_speed_kmh"); s.push(pick(r, d.trains)); break;
		case 18: o.set("fn", "train_dcc_addr"); s.push(pick(r, d.trains)); break;
		case 19: o.set("fn", "train_peripherals"); s.push(pick(r, d.trains)); break;
		case 20: { o.set("fn", "train_peripheral_state"); J t = pick(r, d.trains); s.push(t); if (t.is_str() && d.train_periphs.count(t.s) && !d.train_periphs.at(t.s).empty() && r.chance(800)) s.push(d.train_periphs.at(t.s)[0]); else s.push(r.chance(200) ? J() : J("nofunc")); break; }
		case 21: { static const char *al[] = {"point_aspects", "signal_aspects", "peripheral_aspects"}; size_t k = r.below(3); o.set("fn", al[k]); s.push(pick(r, k == 0 ? d.points : k == 1 ? d.signals : d.periphs)); break; }
		case 22: { o.set("fn", "board_id"); const uint8_t *u = w.boards[r.below(w.boards.size())].uid; for (int q = 0; q < 7; q++) i.push((int) (r.chance(900) ? u[q] : r.byte())); break; }
		case 23: { o.set("fn", "nodeaddr_by_uniqueid"); const uint8_t *u = w.boards[r.below(w.boards.size())].uid; for (int q = 0; q < 7; q++) i.push((int) (r.chance(900) ? u[q] : r.byte())); break; }
		case 24: { o.set("fn", "uniqueid_by_nodeaddr"); const auto &a = w.boards[r.below(w.boards.size())].addr; for (int q = 0; q < 3; q++) i.push(q < (int) a.size() ? (int) a[(size_t) q] : 0); break; }
		case 26: { static const char *ix[] = {"point_state_index", "signal_state_index", "segment_state_index"}; size_t k = r.below(3); o.set("fn", ix[k]); s.push(pick(r, k == 0 ? d.points : k == 1 ? d.signals : d.segments, 200, 0)); break; }   // (NULL is not part of their contract: strcmp on the argument)
		case 25: { o.set("fn", "train_id"); if (!w.trains.empty() && r.chance(800)) { auto &t = w.trains[r.below(w.trains.size())]; i.push((int) t.addrl); i.push((int) t.addrh); } else { i.push((int) r.byte()); i.push((int) r.below(40)); } break; }
	}
	o.set("s", s); o.set("i", i);
	return o;
}

// a state-bearing uplink event for a random entity of the world (valid or unknown targets)
inline J uplink_event(Rng &r, const cfg::World &w, int at_us) {
	J e = J::obj(); e.set("at_us", at_us);
	const cfg::Board &b = w.boards[r.below(w.boards.size())];
	std::vector<uint8_t> addr = b.present ? b.addr : std::vector<uint8_t>{};
	if (r.chance(60)) addr = {(uint8_t) r.range(200, 250)};   // unknown node (not in the tree -> the event is dropped by the bus)
	e.set("node", pc::jaddr(addr));
	auto seg = [&]() -> int { return (!b.segs.empty() && r.chance(850)) ? b.segs[r.below(b.segs.size())].addr : (int) r.below(256); };
	auto train_addr = [&](int &l, int &h) { if (!w.trains.empty() && r.chance(850)) { auto &t = w.trains[r.below(w.trains.size())]; l = t.addrl; h = t.addrh; } else { l = (int) r.byte(); h = (int) r.below(0x28); } };
	int l, h;
	switch (r.below(20)) {
		case 0: e.set("type", (int) MSG_BM_OCC); e.set("data", pc::jarr({seg()})); break;
		case 1: e.set("type", (int) MSG_BM_FREE); e.set("data", pc::jarr({seg()})); break;
		case 2: { e.set("type", (int) MSG_BM_MULTIPLE); int sz = (int) r.range(1, 4) * 8; J d = J::arr(); d.push((int) (r.below(4) * 8)); d.push(sz); for (int q = 0; q < sz / 8; q++) d.push((int) r.byte()); e.set("data", d); break; }
		case 3: case 4: {
			e.set("type", (int) MSG_BM_ADDRESS); J d = J::arr(); d.push(seg());
			int n = (int) r.below(4);
			if (n == 0) { d.push(0); d.push(0); }
			for (int q = 0; q < n; q++) { train_addr(l, h); d.push(l); d.push((h & 0x3F) | (r.chance(120) ? 0x40 : 0) | (r.coin() ? 0x80 : 0)); }
			e.set("data", d); break;
		}
		case 5: e.set("type", (int) MSG_BM_CURRENT); e.set("data", pc::jarr({seg(), (int) r.byte()})); break;
		case 6: e.set("type", (int) MSG_BM_CONFIDENCE); e.set("data", pc::jarr({(int) r.below(2), (int) r.below(2), (int) r.below(2)})); break;
		case 7: train_addr(l, h); e.set("type", (int) MSG_BM_SPEED); e.set("data", pc::jarr({l, h, (int) r.byte(), (int) r.below(4)})); break;
		case 8: train_addr(l, h); e.set("type", (int) MSG_BM_DYN_STATE); e.set("data", pc::jarr({seg(), l, h, (int) r.range(0, 6), (int) r.byte()})); break;
		case 9: { static const int st[] = {0, 1, 2, 3, 4, 5, 6, 0x80, 0x81, 0x82, 0x84}; e.set("type", (int) MSG_BOOST_STAT); e.set("data", pc::jarr({st[r.below(11)]})); break; }
		case 10: { e.set("type", (int) MSG_BOOST_DIAGNOSTIC); J d = J::arr(); for (int q = 0, n = (int) r.range(1, 3); q < n; q++) { d.push((int) r.below(4)); d.push((int) r.byte()); } e.set("data", d); break; }
		case 11: { static const int st[] = {0, 1, 2, 3, 4, 8, 9, 0x0D}; e.set("type", (int) MSG_CS_STATE); e.set("data", pc::jarr({st[r.below(8)]})); break; }
		case 12: train_addr(l, h); e.set("type", (int) MSG_CS_DRIVE_ACK); e.set("data", pc::jarr({l, h, (int) r.below(4)})); break;
		case 13: train_addr(l, h); e.set("type", (int) MSG_CS_DRIVE_MANUAL); e.set("data", pc::jarr({l, h, 3, r.chance(150) ? 0 : (int) r.below(64), (int) r.byte(), (int) r.below(32), (int) r.byte(), (int) r.byte(), (int) r.byte()})); break;
		case 14: {
			int al = (int) r.byte(), ah = (int) r.below(8);
			std::vector<const cfg::DccAcc *> ds; for (auto &x : b.points_dcc) ds.push_back(&x); for (auto &x : b.signals_dcc) ds.push_back(&x);
			if (!ds.empty() && r.chance(850)) { al = ds[0]->addrl; ah = ds[0]->addrh; }
			if (r.coin()) { e.set("type", (int) MSG_CS_ACCESSORY_ACK); e.set("data", pc::jarr({al, ah, (int) r.below(4)})); }
			else { e.set("type", (int) MSG_CS_ACCESSORY_MANUAL); e.set("data", pc::jarr({al, ah, (int) r.byte()})); }
			break;
		}
		case 15: {
			int num = (int) r.below(128);
			std::vector<const cfg::BoardAcc *> as; for (auto &x : b.points_board) as.push_back(&x); for (auto &x : b.signals_board) as.push_back(&x);
			int asp = (int) r.below(8);
			if (!as.empty() && r.chance(850)) { auto *a = as[r.below(as.size())]; num = a->number; if (r.chance(800)) asp = a->aspects[r.below(a->aspects.size())].value; }
			e.set("type", r.chance(800) ? (int) MSG_ACCESSORY_STATE : (int) MSG_ACCESSORY_NOTIFY);
			e.set("data", pc::jarr({num, asp, (int) r.range(1, 8), r.chance(150) ? 0x80 : (int) r.below(4), (int) r.byte()})); break;
		}
		case 16: case 17: {
			int p0 = (int) r.byte(), p1 = (int) r.byte(), v = (int) r.below(4);
			if (!b.periphs.empty() && r.chance(850)) { auto &p = b.periphs[r.below(b.periphs.size())]; p0 = p.port0; p1 = p.port1; if (r.chance(800)) v = p.aspects[r.below(p.aspects.size())].value; }
			if (r.chance(750)) { e.set("type", (int) MSG_LC_STAT); e.set("data", pc::jarr({p0, p1, v})); } else { e.set("type", (int) MSG_LC_WAIT); e.set("data", pc::jarr({p0, p1, (int) r.byte()})); }
			break;
		}
		case 18: {
			std::string name = "9999"; char val = "0123x"[r.below(5)];
			if (!b.revs.empty() && r.chance(850)) name = b.revs[r.below(b.revs.size())].cv;
			J d = J::arr(); d.push((int) name.size()); for (char c : name) d.push((int) (uint8_t) c); d.push(1); d.push((int) val);
			e.set("type", (int) MSG_VENDOR); e.set("data", d); break;
		}
		case 19: { static const uint8_t q[] = {MSG_SYS_PONG, MSG_SYS_ERROR, MSG_LC_NA, MSG_BM_POSITION, MSG_CS_DRIVE_EVENT}; uint8_t t = q[r.below(5)]; e.set("type", (int) t); e.set("data", t == MSG_BM_POSITION ? pc::jarr({1, 2, 3, 4, 5}) : t == MSG_SYS_ERROR ? pc::jarr({(int) r.below(0x31), (int) r.below(7)}) : pc::jarr({(int) r.below(3), 0})); break; }
	}
	return e;
}

}  // namespace api

// C10 (thread-safe API is race-free and atomic) and C11 (no call blocks forever: balanced locks, one nesting order)
// share one concurrent workload over generated worlds.
#include "common.h"
#include "cfggen.h"
#include "apiops.h"
#include "cfgmut.h"
#include "../contracts.h"

namespace {

static Engine *g_e = nullptr;
static bool g_armed = false;
static std::map<void *, std::vector<const Contract *>> *g_cmap = nullptr;
static uint64_t g_contract_checks = 0;

static void fn_hook(void *fn, sim::Task *t) {
	if (!g_armed || !g_cmap) return;
	auto it = g_cmap->find(fn);
	if (it == g_cmap->end()) return;
	for (const Contract *c : it->second) {
		int lid = sim::lock_id_of(c->lock);
		bool ok = false;
		for (auto &h : t->held) if (h.lock == lid && (c->mode != 'w' || h.mode == 'w')) ok = true;
		g_contract_checks++;
		if (!ok) {
			std::string lname = lid >= 0 ? sim::lock_names()[(size_t) lid] : std::string("(lock never used)");
			g_e->violate("LOCK_CONTRACT", c->name, std::string(c->name) + " requires " + lname + (c->mode == 'r' ? " (>= read)" : c->mode == 'w' ? " (write)" : "") +
			             " to be held by the caller, but the calling task does not hold it: " + sim::describe_tasks());
		}
	}
}

Prop *make_c09_conc_fwd();

struct Conc : Prop {
	bool is_c11;
	// C10, atomicity of the high-level commands: a share of the runs uses the C09 generator in its concurrent mode and the C09
	// oracle (serial-order explanation of the downlink against the config->message reference model)
	Prop *sub = nullptr; bool deleg = false; uint64_t deleg_runs = 0;
	explicit Conc(bool c11) : is_c11(c11) { if (!c11) sub = make_c09_conc_fwd(); }
	const char *id() const override { return is_c11 ? "C11" : "C10"; }
	// a poll loop that waits for an answer which never comes is not a lock problem
	bool owns(const std::string &cls) const override { return cls != "WAIT_FOREVER"; }
	std::string rule() const override {
		if (is_c11)
			return "plan = generated worlds (some boards absent); 1-6 tasks calling every public function with argument classes valid / unknown id / NULL / disconnected board / "
			       "undefined aspect / out-of-range, every getter, low-level sends, flush and reads, while the bus delivers every handled uplink type incl. NODE_NEW/NODE_LOST "
			       "(also during the start-up dialogue), STALL and drive-manual; rejected configurations and bidib_send_sys_reset. Oracle: (a) held-lock set at return of "
			       "every call equals the set at entry, empty at task exit; (b) the global lock-order graph merged over all runs has no cycle other than pure read re-acquisition; "
			       "(c) no deadlock / self-deadlock / unbounded wait in any schedule (decided by the scheduler). non-trivial = >=2 tasks overlapped inside library calls and a "
			       "write lock was requested by the receiver; distinct = (shape, trace).";
		return "plan = generated worlds; 2-16 tasks mixing read-queue calls, flush, low-/high-level sends and every getter, continuous uplink traffic that mutates all state "
		       "kinds, auto-flush on. Detectors under the deterministic scheduler: (1) ThreadSanitizer build (the baton hand-off is invisible to it, so only the library's own "
		       "locks create happens-before), (2) lock-contract monitor generated from the 'Shall only be called with ...' comments of the current tree, armed only in the "
		       "running window, (3) atomicity: updates carry values derived from one counter per entity, a getter result must be internally consistent (no torn train / "
		       "booster / segment), every queued message is returned to exactly one reader. non-trivial = >=3 tasks overlapped on one lock and a reader overlapped a writer; "
		       "distinct = (shape, trace).";
	}

	J generate(Rng &r, const std::string &tier, uint64_t seed) override {
		bool thorough = tier == "thorough";
		if (sub && r.chance(220)) { J p = sub->generate(r, tier, seed); p.set("delegate", "C09-concurrent"); return p; }
		J plan = J::obj();
		cfg::GenOpts o; o.max_boards = thorough ? 4 : 3; o.max_trains = 3; o.allow_absent = is_c11;
		cfg::World w = cfg::gen_world(r, o);
		cfg::install(plan, w, r);
		api::Ids ids = api::collect(w);
		// C10: the first train and all boosters are reserved for atomicity carriers (no other writer touches them)
		cfg::World w_events = w;
		if (!is_c11 && !w.trains.empty()) { ids.trains.erase(ids.trains.begin()); w_events.trains.erase(w_events.trains.begin()); }
		// C10 focus mode (one run in three): readers hammer the single getter of ONE entity while the bus keeps changing exactly that entity
		struct Focus { int kind = -1; const cfg::Board *b = nullptr; std::string id, getter; size_t idx = 0; } fo;
		if (!is_c11 && r.chance(350)) {
			std::vector<Focus> c;
			for (auto &b : w.boards) {
				if (!b.present) continue;
				for (size_t i = 0; i < b.periphs.size(); i++) c.push_back({0, &b, b.periphs[i].id, "peripheral_state", i});
				for (size_t i = 0; i < b.points_board.size(); i++) c.push_back({1, &b, b.points_board[i].id, "point_state", i});
				for (size_t i = 0; i < b.signals_board.size(); i++) c.push_back({2, &b, b.signals_board[i].id, "signal_state", i});
				for (size_t i = 0; i < b.points_dcc.size(); i++) c.push_back({3, &b, b.points_dcc[i].id, "point_state", i});
				for (size_t i = 0; i < b.signals_dcc.size(); i++) c.push_back({4, &b, b.signals_dcc[i].id, "signal_state", i});
				for (size_t i = 0; i < b.segs.size(); i++) c.push_back({5, &b, b.segs[i].id, "segment_state", i});
				for (size_t i = 0; i < b.revs.size(); i++) c.push_back({6, &b, b.revs[i].id, "reverser_state", i});
				// position reports of a Secure-ACK board: handed to the application's queue and mirrored by the receiver
				if (b.secack()) { c.push_back({7, &b, "", "", 0}); c.push_back({7, &b, "", "", 0}); }
			}
			if (!c.empty()) fo = c[r.below(c.size())];
		}
		auto focus_event = [&](int t) {
			J e = J::obj(); e.set("at_us", t); e.set("node", pc::jaddr(fo.b->addr));
			switch (fo.kind) {
				case 0: { auto &p = fo.b->periphs[fo.idx]; int v = r.chance(850) ? p.aspects[r.below(p.aspects.size())].value : (int) r.below(8);
					if (r.chance(800)) { e.set("type", (int) MSG_LC_STAT); e.set("data", pc::jarr({p.port0, p.port1, v})); } else { e.set("type", (int) MSG_LC_WAIT); e.set("data", pc::jarr({p.port0, p.port1, (int) r.byte()})); } break; }
				case 1: case 2: { auto &a = fo.kind == 1 ? fo.b->points_board[fo.idx] : fo.b->signals_board[fo.idx]; int v = r.chance(850) ? a.aspects[r.below(a.aspects.size())].value : (int) r.below(8);
					e.set("type", r.chance(800) ? (int) MSG_ACCESSORY_STATE : (int) MSG_ACCESSORY_NOTIFY); e.set("data", pc::jarr({a.number, v, (int) r.range(1, 8), (int) r.below(4), (int) r.byte()})); break; }
				case 3: case 4: { auto &a = fo.kind == 3 ? fo.b->points_dcc[fo.idx] : fo.b->signals_dcc[fo.idx];
					if (r.coin()) { e.set("type", (int) MSG_CS_ACCESSORY_ACK); e.set("data", pc::jarr({a.addrl, a.addrh, (int) r.below(4)})); } else { e.set("type", (int) MSG_CS_ACCESSORY_MANUAL); e.set("data", pc::jarr({a.addrl, a.addrh, (int) r.byte()})); } break; }
				case 5: { int sa = fo.b->segs[fo.idx].addr; uint64_t x = r.below(5);
					if (x == 0) { e.set("type", (int) MSG_BM_OCC); e.set("data", pc::jarr({sa})); }
					else if (x == 1) { e.set("type", (int) MSG_BM_FREE); e.set("data", pc::jarr({sa})); }
					else if (x == 2) { e.set("type", (int) MSG_BM_CURRENT); e.set("data", pc::jarr({sa, (int) r.byte()})); }
					else { J d = J::arr(); d.push(sa); int n = (int) r.below(4); if (n == 0) { d.push(0); d.push(0); } for (int q = 0; q < n; q++) { if (!w.trains.empty() && r.chance(700)) { auto &tr = w.trains[r.below(w.trains.size())]; d.push((int) tr.addrl); d.push((int) ((tr.addrh & 0x3F) | (r.coin() ? 0x80 : 0))); } else { d.push((int) r.byte()); d.push((int) r.below(0x28)); } } e.set("type", (int) MSG_BM_ADDRESS); e.set("data", d); }
					break; }
				case 7: { e.set("type", (int) MSG_BM_POSITION); e.set("data", pc::jarr({(int) r.byte(), (int) r.below(0x28), (int) r.below(4), (int) r.byte(), (int) r.byte()})); break; }
				default: { const std::string &name = fo.b->revs[fo.idx].cv; char val = "0123x"[r.below(5)]; J d = J::arr(); d.push((int) name.size()); for (char ch : name) d.push((int) (uint8_t) ch); d.push(1); d.push((int) val); e.set("type", (int) MSG_VENDOR); e.set("data", d); break; }
			}
			return e;
		};
		J se = cfg::normal_session(0, is_c11 ? (r.coin() ? 0 : (int) r.range(1, 30)) : (int) r.range(1, 30));
		// C11: node table changes while the start-up dialogue runs
		if (is_c11 && r.chance(350)) {
			J sev = J::arr();
			std::vector<const cfg::Board *> leafs;
			// (a configured board that vanishes is never asked for feature answers only if it has no features: the start-up has no timeout there)
			for (auto &b : w.boards) if (b.present && !b.addr.empty() && !b.is_iface() && b.features.empty()) leafs.push_back(&b);
			if (!leafs.empty()) {
				const cfg::Board *lb = leafs[r.below(leafs.size())];
				int t0 = (int) r.range(2200000, 2700000);
				J e1 = J::obj(); e1.set("at_us", t0); e1.set("topo", "lost"); e1.set("node", pc::jaddr(lb->addr)); sev.push(e1);
				J e2 = J::obj(); e2.set("at_us", t0 + (int) r.range(1000, 200000)); e2.set("topo", "new"); e2.set("node", pc::jaddr(lb->addr)); sev.push(e2);
			}
			se.set("start_bus", sev);
		}
		J phs = J::arr();
		int nph = (int) r.range(1, thorough ? 3 : 2), maxt = 2;
		int counter = 1;
		for (int p = 0; p < nph; p++) {
			J ph = J::obj();
			int nt = is_c11 ? (int) r.range(1, 6) : (int) r.range(2, thorough ? 16 : 8);
			maxt = std::max(maxt, nt);
			J tasks = J::arr();
			for (int t = 0; t < nt; t++) {
				J ops = J::arr();
				int no = (int) r.range(2, thorough ? 30 : 16);
				int role = (int) r.below(4);   // 0 mixed, 1 getters, 2 setters, 3 queue readers
				for (int i = 0; i < no; i++) {
					uint64_t x = r.below(100);
					J op;
					if (fo.kind == 7 && r.chance(600)) { op = J::obj(); op.set("op", r.chance(700) ? "read" : "drain"); if (op.gets("op") == "drain") op.set("q", "read"); }
					else if (fo.kind >= 0 && fo.kind != 7 && role != 2 && r.chance(role == 1 ? 800 : 400)) { op = J::obj(); op.set("op", "get"); op.set("fn", r.chance(850) ? fo.getter : std::string("state")); J sa = J::arr(); if (op.gets("fn") != "state") sa.push(fo.id); op.set("s", sa); op.set("i", J::arr()); }
					else if (!is_c11 && !w.trains.empty() && x < 12) { op = J::obj(); op.set("op", "get"); op.set("fn", "train_state"); J sa = J::arr(); sa.push(w.trains[0].id); op.set("s", sa); op.set("i", J::arr()); }
					else if (role == 1 ? x < 85 : role == 2 ? x < 10 : role == 3 ? x < 10 : x < 40) op = api::get_op(r, ids, w);
					else if (role == 3 ? x < 80 : x < 50) { op = J::obj(); op.set("op", r.chance(800) ? "read" : "read_err"); }
					else if (x < 56) { op = J::obj(); op.set("op", "flush"); }
					else if (x < 62) { op = J::obj(); op.set("op", "sleep"); op.set("us", (int) r.range(100, 20000)); }
					else if (x < 72) {
						const cfg::Board &b = w.boards[r.below(w.boards.size())];
						const cat::LL *f = &cat::table[r.below(cat::table_n)];
						if (std::string(f->name) == "sys_enable" || std::string(f->name) == "sys_disable" || std::string(f->name) == "nodetab_getall" || std::string(f->name) == "nodetab_getnext") f = cat::find("sys_ping");
						op = pc::ll_op(r, *f, b.present ? b.addr : std::vector<uint8_t>{});
					}
					else op = api::hl_op(r, ids);
					// (C10: the train whose state the torn-read oracle watches is driven by the bus generator alone - a low-level drive command of the
					// application for the same decoder address would legitimately mix its own function groups into that state)
					if (!is_c11 && !w.trains.empty() && op.gets("op") == "ll" && (op.gets("fn") == "cs_drive" || op.gets("fn") == "cs_bin_state" || op.gets("fn") == "cs_pom")) {
						std::vector<uint8_t> a = unhex(op.gets("a"));
						if (a.size() >= 2 && a[0] == w.trains[0].addrl && a[1] == w.trains[0].addrh) continue;
					}
					if (!is_c11) {
						// C10 keeps to the documented contract: no NULL arguments
						bool has_null = false; for (size_t q = 0; q < op["s"].size(); q++) if (op["s"][q].is_null()) has_null = true;
						if (has_null) continue;
					}
					ops.push(op);
				}
				tasks.push(ops);
			}
			ph.set("tasks", tasks);
			// uplink traffic
			J ev = J::arr();
			int ne = (int) r.range(is_c11 ? 2 : 8, thorough ? 60 : 30), t = 0;
			for (int i = 0; i < ne; i++) {
				t += (int) r.range(0, 4000);
				uint64_t x = r.below(100);
				if (fo.kind >= 0 && r.chance(650)) { ev.push(focus_event(t)); continue; }
				if (!is_c11 && x < 45 && !w.trains.empty()) {
					// atomicity carriers: all fields of the entity derive from one counter value
					int k = counter++ & 0x1F;
					const cfg::Train &tr = w.trains[0];
					std::vector<const cfg::Board *> tos; for (auto &b : w.boards) if (b.present && b.track_output()) tos.push_back(&b);
					if (tos.empty()) continue;
					// speed step k+1 forwards (dcc byte 0x80 | (k+2)); function byte 1 = k (bits 0-4), bytes 2..4 = k repeated
					uint8_t kk = (uint8_t) k, rep = (uint8_t) (kk | (kk << 5));
					J e = J::obj(); e.set("at_us", t); e.set("node", pc::jaddr(tos[0]->addr)); e.set("type", (int) MSG_CS_DRIVE_MANUAL);
					e.set("data", pc::jarr({tr.addrl, tr.addrh, 3, 0x3F, 0x80 | (k + 2), k, (int) rep, (int) rep, (int) rep})); e.set("tag", 500 + k);
					ev.push(e);
				} else if (!is_c11 && x < 60) {
					std::vector<const cfg::Board *> bs; for (auto &b : w.boards) if (b.present && b.booster()) bs.push_back(&b);
					if (bs.empty()) continue;
					int k = (counter++ % 100) + 20;
					J e = J::obj(); e.set("at_us", t); e.set("node", pc::jaddr(bs[r.below(bs.size())]->addr)); e.set("type", (int) MSG_BOOST_DIAGNOSTIC);
					e.set("data", pc::jarr({0, k, 1, k, 2, k})); ev.push(e);
				} else if (x < 70) {
					J e = J::obj(); e.set("at_us", t); e.set("node", J::arr()); e.set("type", (int) MSG_SYS_PONG); e.set("data", pc::jarr({counter & 0xFF, (counter >> 8) & 0xFF, 0x77})); counter++; ev.push(e);
				} else if (is_c11 && x < 78) {
					std::vector<const cfg::Board *> leafs;
					for (auto &b : w.boards) if (!b.addr.empty()) leafs.push_back(&b);
					if (leafs.empty()) continue;
					J e = J::obj(); e.set("at_us", t); e.set("topo", r.coin() ? "lost" : "new"); e.set("node", pc::jaddr(leafs[r.below(leafs.size())]->addr)); ev.push(e);
				} else if (is_c11 && x < 82) {
					J e = J::obj(); e.set("at_us", t); e.set("node", pc::jaddr(w.boards[r.below(w.boards.size())].addr)); e.set("type", (int) MSG_STALL); e.set("data", pc::jarr({(int) r.below(2)})); ev.push(e);
				} else {
					J e = api::uplink_event(r, w_events, t);
					if (!is_c11 && (e.geti("type") == MSG_BOOST_DIAGNOSTIC || e.geti("type") == MSG_CS_DRIVE_MANUAL)) continue;
					ev.push(e);
				}
			}
			ph.set("bus", ev);
			J post = J::arr(); post.push("quiesce"); ph.set("post", post);
			phs.push(ph);
			if (is_c11 && r.chance(150)) {
				J rp = J::obj(); J pre = J::arr(); J ro = J::obj(); ro.set("op", "reset"); pre.push(ro); rp.set("pre", pre);
				J post2 = J::arr(); post2.push("quiesce"); rp.set("post", post2); phs.push(rp);
			}
		}
		// long history (one run in 150): more commands than the action-id counter has values (it wraps from 9999 to 1), then ordinary commands again
		if (is_c11 && r.chance(7)) {
			std::vector<const cfg::Board *> pb; for (auto &b : w.boards) if (b.present) pb.push_back(&b);
			if (!pb.empty()) {
				J ph = J::obj(); J ops = J::arr();
				J body = J::obj(); body.set("op", "hl"); body.set("fn", "identify"); J sa = J::arr(); sa.push(pb[r.below(pb.size())]->id); body.set("s", sa); body.set("i", pc::jarr({(int) r.below(2)}));
				J rep = J::obj(); rep.set("op", "repeat"); rep.set("n", (int) r.range(10010, 10300)); rep.set("sleep_every", 4); rep.set("sleep_us", 10000); rep.set("body", body); ops.push(rep);
				for (int i = 0; i < 4; i++) ops.push(api::hl_op(r, ids));
				J tasks = J::arr(); tasks.push(ops); ph.set("tasks", tasks); ph.set("long_history", true);
				J post = J::arr(); post.push("quiesce"); ph.set("post", post); phs.push(ph);
			}
		}
		if (is_c11) { J ph = J::obj(); J pre = J::arr(); J h = J::obj(); h.set("op", "heal"); pre.push(h); ph.set("pre", pre); J post = J::arr(); post.push("quiesce"); ph.set("post", post); phs.push(ph); }
		se.set("phases", phs);
		J ss = J::arr();
		if (is_c11 && r.chance(300)) {
			// a rejected configuration first (duplicate id): the failed start runs the whole stop path
			// (a duplicated accessory id, or any structure-aware mutation of one of the three files: duplicate values such as dcc addresses,
			// deleted / renamed keys, bad formats ... - whatever the start makes of it, no lock may stay held and no call may block)
			J cfgs = plan["configs"]; J bad = cfgs[0];
			if (r.coin()) {
				std::string t = bad.gets("track");
				size_t pos = t.find("      - id: ");
				if (pos != std::string::npos) { size_t eol = t.find('\n', pos); size_t nxt = t.find("      - id: ", eol); if (nxt != std::string::npos) { size_t e2 = t.find('\n', nxt); t = t.substr(0, nxt) + t.substr(pos, eol - pos) + t.substr(e2); } }
				bad.set("track", t);
			} else {
				static const char *files[] = {"board", "track", "train"};
				const char *fk = files[r.chance(600) ? 1 : r.below(3)];
				std::map<std::string, int> kinds;
				bad.set(fk, cfgmut::mutate(r, bad.gets(fk), kinds));
			}
			cfgs.push(bad); plan.set("configs", cfgs);
			J s0 = cfg::normal_session(1, 0); J st = J::obj(); st.set("mode", "pointer"); st.set("config", 1); st.set("flush_ms", 0); s0.set("start", st);
			ss.push(s0);
		}
		ss.push(se); plan.set("sessions", ss);
		J sc = sched_json(r, tier, maxt + 2, true);
		cfg::starve_after_startup(sc, r);
		// (a backlog of ten thousand answers and a receiver that is descheduled for milliseconds at every twentieth lock operation do not go together:
		// the run would only show that a slow machine is slow)
		for (size_t q = 0; q < phs.size(); q++) if (phs[q].getb("long_history")) { sc.set("preempt_permille", 0); sc.set("preempt_max_us", 0); sc.set("max_steps", 80000000); if (sc.geti("fn_yield") > 10) sc.set("fn_yield", 10); }   // (ten thousand calls need more scheduling steps than an ordinary run is allowed)
		plan.set("sched", sc);
		if (!is_c11) plan.set("variant_hint", "asan+tsan");
		if (fo.kind >= 0) plan.set("focus", fo.kind == 7 ? std::string("position reports of a SecAck board") : fo.getter + ":" + fo.id);
		return plan;
	}

	cfg::World world;
	std::map<void *, std::vector<const Contract *>> cmap;
	std::set<std::vector<uint8_t>> pongs_sent;
	std::map<std::vector<uint8_t>, int> pongs_read;
	uint64_t torn_checks = 0, receiver_wrlocks = 0;

	void attach(Engine &e) override {
		deleg = sub && e.plan.has("delegate");
		sim::hooks().on_fn_enter = nullptr;
		sim::lockset_arm(false); sim::lockset_reset_counters();
		if (deleg) { deleg_runs++; sub->attach(e); return; }
		g_e = &e; g_armed = false; g_contract_checks = 0;
		world = cfg::from_json(e.plan["world"]);
		cmap.clear(); pongs_sent.clear(); pongs_read.clear(); torn_checks = 0; receiver_wrlocks = 0;
		for (const Contract *c = g_contracts; c->fn; c++) cmap[c->fn].push_back(c);
		g_cmap = &cmap;
		sim::hooks().on_fn_enter = fn_hook;
		e.bus.on_delivered = [this](bus::UpFrame &f) { for (auto &m : f.msgs) if (m.type == MSG_SYS_PONG && m.data.size() == 3 && m.data[2] == 0x77) pongs_sent.insert(m.data); };
	}
	void on_session_start(Engine &e, int s, int ret) override { if (!is_c11) sim::lockset_arm(ret == 0); if (deleg) { sub->on_session_start(e, s, ret); return; } g_armed = (ret == 0) && !is_c11; }
	void before_stop(Engine &e, int s) override { sim::lockset_arm(false); if (deleg) { sub->before_stop(e, s); return; } g_armed = false; }
	void on_session_stop(Engine &e, int s) override { if (deleg) sub->on_session_stop(e, s); }
	void at_end(Engine &e) override { if (deleg) sub->at_end(e); }

	void after_op(Engine &e, OpRec &o) override {
		if (deleg) { sub->after_op(e, o); return; }
		const std::string &k = o.op->gets("op");
		if (k == "reset") return;
		if (k == "read" && o.has_bytes && o.bytes.size() == 7 && o.bytes[3] == MSG_SYS_PONG && o.bytes[6] == 0x77) {
			std::vector<uint8_t> d(o.bytes.begin() + 4, o.bytes.end());
			if (++pongs_read[d] > 1) e.violate("MESSAGE_READ_TWICE", "bidib_read_message", "queued message " + hex_of(o.bytes) + " was returned to two readers");
		}
		if (is_c11 || k != "get") return;
		const std::string &fn = o.op->gets("fn");
		// ---- atomicity: a train's speed and function bits, a booster's three diagnostic values come from one update
		auto check_train = [&](const std::string &tid, const J &d) {
			if (world.trains.empty() || tid != world.trains[0].id) return;
			const cfg::Train *t = &world.trains[0];
			int sp = (int) d.geti("speed"); bool fwd = d.getb("fwd");
			if (!fwd || sp < 1 || sp > 32) return;        // initial state (speed 0): no carrier seen yet
			int kv = sp - 1;                                 // carrier k: speed step k+1, function bits derived from k
			const J &ps = d["periph"];
			torn_checks++;
			for (size_t i = 0; i < ps.size(); i++) {
				std::string pid = ps[i][0].str(); int st = (int) ps[i][1].num();
				for (auto &tp : t->periphs) if (tp.id == pid) {
					int b8 = tp.bit % 8;
					if (tp.bit >= 5 && tp.bit < 8) continue;   // bits 5-7 are not part of any function group
					int want = (kv >> (b8 < 5 ? b8 : b8 - 5)) & 1;
					if (tp.bit < 5) want = (kv >> tp.bit) & 1;
					if (st != want)
						e.violate("TORN_READ", "train " + tid, "train state mixes two drive updates: speed step " + std::to_string(sp) + " (update " + std::to_string(kv) + ") but function '" + pid + "' (bit " + std::to_string(tp.bit) + ") is " + std::to_string(st) + ", which belongs to another update");
				}
			}
		};
		auto check_booster = [&](const std::string &bid, const J &d) {
			if (!d.getb("v_known") || !d.getb("t_known") || !d["power"].getb("known")) return;
			int v = (int) d.geti("v"), t = (int) d.geti("t");
			long long cur = d["power"].geti("current", -1);
			if (v < 20 || v > 119 || t != v) {
				if (v >= 20 && v <= 119 && t >= 20 && t <= 119 && t != v) e.violate("TORN_READ", "booster " + bid, "booster state mixes two diagnostic updates: voltage code " + std::to_string(v) + " but temperature " + std::to_string(t));
				return;
			}
			torn_checks++;
			long long want = v < 64 ? (v - 12) * 4 : (v < 128 ? (v - 51) * 16 : -1);
			if (want >= 0 && cur != want && cur >= 0) e.violate("TORN_READ", "booster " + bid, "booster state mixes two diagnostic updates: voltage/temperature code " + std::to_string(v) + " but current " + std::to_string(cur) + " mA (expected " + std::to_string(want) + ")");
		};
		if (fn == "booster_state" && o.result.getb("known")) check_booster(o.op->operator[]("s")[0].str(), o.result["data"]);
		if (fn == "state") { for (auto &kv : o.result["boosters"].o) check_booster(kv.first, kv.second); for (auto &kv : o.result["trains"].o) check_train(kv.first, kv.second); }
		if (fn == "train_state" && o.result.getb("known")) check_train(o.op->operator[]("s")[0].str(), o.result["data"]);
	}

	void at_quiescence(Engine &e, int s, int p) override {
		if (deleg) { sub->at_quiescence(e, s, p); return; }
		if (!e.bus.dec.error.empty()) e.violate("FRAMING", "downlink", e.bus.dec.error);
	}

	void coverage(Engine &e, J &f) override {
		if (deleg) {
			sub->coverage(e, f);
			J p = J::obj(); long long ov = 0;
			for (auto &kv : f["probes"].o) { if (kv.first.compare(0, 10, "concurrent") == 0) p.set("command_atomicity_" + kv.first, kv.second); if (kv.first == "concurrent_phases_with_overlapping_calls") ov = (long long) kv.second.num(); }
			p.set("command_atomicity_runs", 1);
			f.set("probes", p); f.set("nontrivial", ov > 0);
			return;
		}
		const sim::RunStats &st = sim::stats();
		bool overlap = false;
		for (size_t i = 0; i < e.oplog.size() && !overlap; i++) for (size_t j = i + 1; j < e.oplog.size() && j < i + 30; j++)
			if (e.oplog[i].task != e.oplog[j].task && e.oplog[i].inv_step < e.oplog[j].ret_step && e.oplog[j].inv_step < e.oplog[i].ret_step) { overlap = true; break; }
		f.set("nontrivial", is_c11 ? overlap : (overlap && st.overlap3 > 0));
		f.set("shape", (long long) (pc::shape_hash(e.plan) >> 1));
		J p = J::obj();
		p.set("unique_messages_read", (long long) pongs_read.size()); p.set("runs_with_overlapping_calls", overlap ? 1 : 0);
		if (!is_c11) {
			p.set("contract_checks", (long long) g_contract_checks); p.set("torn_read_checks", (long long) torn_checks);
			if (e.plan.has("focus")) p.set("focus_runs_one_entity_hammered", 1);
			p.set("glib_container_lockset_checks", (long long) sim::lockset_checks()); p.set("glib_containers_shared_between_tasks", (long long) sim::lockset_shared_objects());
		}
		f.set("probes", p);
	}
};

}  // namespace

Prop *make_c09_conc();
namespace { Prop *make_c09_conc_fwd() { return make_c09_conc(); } }
Prop *make_c10() { return new Conc(false); }
Prop *make_c11() { return new Conc(true); }

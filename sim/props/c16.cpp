// C16 — lifecycle: safe shutdown sequence, threads joined once, no leaks, restartable.
#include "common.h"
#include "cfggen.h"
#include "cfgmut.h"

namespace {

struct C16 : Prop {
	const char *id() const override { return "C16"; }
	std::string rule() const override {
		return "plan = 2-5 library sessions in one process followed by a reference copy of the last session executed with the library's static data restored to "
		       "process-start content: session kinds = debug / normal (pointer) / normal through the simulated serial device / silent interface (start fails) / serial "
		       "device cannot be opened / truncated configuration (start fails), auto-flush on or off, activity in between (sequential sends, capacity announcements, "
		       "messages left deferred behind a stalled leaf, unread queue entries, occupancy and drive state), stop-while-stopped, start-while-running (with valid and with rejected arguments). Oracle: start "
		       "return code; shutdown transcript (SOFTSTOP, zero-speed drive per train, OFF to every connected track output, in that order); every thread created is "
		       "joined exactly once and no stale handle is joined; library-attributed live heap bytes after stop equal those after the previous session of the same kind; "
		       "the last session's decoded wire transcript, packet boundaries and final bidib_get_state equal those of its fresh-state reference copy. "
		       "non-trivial = >=3 sessions with >=2 different thread sets (auto-flush on/off or failed start); distinct = (shape, trace).";
	}

	static J gen_session(Rng &r, const std::string &kind, const cfg::World &w, bool for_compare) {
		J se = J::obj(); J st = J::obj();
		int flush_ms = (for_compare || r.chance(500)) ? 0 : (int) r.range(1, 40);
		se.set("kind", kind);
		J phs = J::arr();
		if (kind == "debug") {
			st.set("mode", "debug"); st.set("flush_ms", flush_ms);
			// sequential activity: unflushed sends around a capacity announcement, deferred messages behind a stalled leaf, unread uplink messages
			std::vector<std::vector<uint8_t>> addrs;
			for (auto &b : w.boards) if (b.present) addrs.push_back(b.addr);
			addrs.push_back({});
			J ph = J::obj(); J pre = J::arr();
			auto emit = [&](const std::vector<uint8_t> &ad, int type, std::initializer_list<int> d) { J e = J::obj(); e.set("op", "emit"); e.set("node", pc::jaddr(ad)); e.set("type", type); e.set("data", pc::jarr(d)); pre.push(e); J q = J::obj(); q.set("op", "quiesce"); q.set("flush", false); pre.push(q); };
			std::vector<size_t> cheap;
			for (size_t i = 0; i < cat::table_n; i++) if (pc::resp_info(cat::table[i].type).size == 0 && !cat::table[i].to_interface_only) cheap.push_back(i);
			int n1 = (int) r.range(2, 12);
			for (int i = 0; i < n1; i++) pre.push(pc::ll_op(r, cat::table[cheap[r.below(cheap.size())]], addrs[r.below(addrs.size())]));
			if (r.chance(700)) emit({}, MSG_PKT_CAPACITY, {(int) r.range(100, 255)});
			int n2 = (int) r.range(2, 12);
			for (int i = 0; i < n2; i++) pre.push(pc::ll_op(r, cat::table[cheap[r.below(cheap.size())]], addrs[r.below(addrs.size())]));
			{ J f = J::obj(); f.set("op", "flush"); pre.push(f); }
			if (r.chance(600) && addrs.size() > 1) {
				const std::vector<uint8_t> &leaf = addrs[0];
				emit(leaf, MSG_STALL, {1});
				for (int i = 0, n = (int) r.range(1, 5); i < n; i++) pre.push(pc::ll_op(r, cat::table[cheap[r.below(cheap.size())]], leaf));
			}
			if (r.chance(600)) for (int i = 0, n = (int) r.range(1, 6); i < n; i++) emit(addrs[r.below(addrs.size())], MSG_SYS_PONG, {i});
			ph.set("pre", pre);
			J post = J::arr(); post.push("quiesce"); ph.set("post", post);
			phs.push(ph);
		} else if (kind == "normal" || kind == "serial_ok") {
			st.set("mode", kind == "normal" ? "pointer" : "serial"); st.set("flush_ms", flush_ms); st.set("config", 0);
			J ph = J::obj(); J pre = J::arr();
			auto q = [&]() { J x = J::obj(); x.set("op", "quiesce"); pre.push(x); };
			// drive some trains, switch something, occupancy
			std::vector<const cfg::Board *> tos;
			for (auto &b : w.boards) if (b.present && b.track_output()) tos.push_back(&b);
			for (auto &t : w.trains) {
				if (tos.empty() || !r.chance(700)) continue;
				J o = J::obj(); o.set("op", "hl"); o.set("fn", "set_train_speed"); J s = J::arr(); s.push(t.id); s.push(tos[r.below(tos.size())]->id); o.set("s", s); o.set("i", pc::jarr({(int) r.range(-126, 126)})); pre.push(o); q();
				if (!t.periphs.empty()) { J o2 = J::obj(); o2.set("op", "hl"); o2.set("fn", "set_train_peripheral"); J s2 = J::arr(); s2.push(t.id); s2.push(t.periphs[0].id); s2.push(tos[0]->id); o2.set("s", s2); o2.set("i", pc::jarr({1})); pre.push(o2); q(); }
			}
			for (auto &b : w.boards) {
				if (!b.present) continue;
				for (auto &g : b.segs) if (r.chance(400)) { J e = J::obj(); e.set("op", "emit"); e.set("node", pc::jaddr(b.addr)); e.set("type", (int) MSG_BM_OCC); e.set("data", pc::jarr({(int) g.addr})); pre.push(e); q(); }
				for (auto &p : b.points_board) if (r.chance(400)) { J o = J::obj(); o.set("op", "hl"); o.set("fn", "switch_point"); J s = J::arr(); s.push(p.id); s.push(p.aspects[0].id); o.set("s", s); pre.push(o); q(); }
			}
			if (r.chance(500)) for (int i = 0, n = (int) r.range(1, 4); i < n; i++) { J e = J::obj(); e.set("op", "emit"); e.set("node", J::arr()); e.set("type", (int) MSG_SYS_PONG); e.set("data", pc::jarr({i})); pre.push(e); q(); }
			// the application resets the system while state is populated (aspect names, occupancy, train state), possibly followed by more activity
			if (r.chance(250)) {
				J ro = J::obj(); ro.set("op", "reset"); pre.push(ro); q();
				for (auto &b : w.boards) if (b.present) for (auto &p : b.points_board) if (r.chance(300)) { J o = J::obj(); o.set("op", "hl"); o.set("fn", "switch_point"); J s = J::arr(); s.push(p.id); s.push(p.aspects.back().id); o.set("s", s); pre.push(o); q(); }
			}
			{ J g = J::obj(); g.set("op", "get"); g.set("fn", "state"); pre.push(g); }
			ph.set("pre", pre);
			J post = J::arr(); post.push("quiesce"); ph.set("post", post);
			phs.push(ph);
		} else if (kind == "silent") { st.set("mode", "pointer"); st.set("flush_ms", flush_ms); st.set("config", 0); st.set("silent_bus", true); }
		else if (kind == "serial_fail") { st.set("mode", "serial"); st.set("flush_ms", flush_ms); st.set("config", 0); st.set("openable", false); }
		else if (kind == "badcfg") { st.set("mode", "pointer"); st.set("flush_ms", flush_ms); st.set("config", 1); }
		else if (kind == "late_magic") { st.set("mode", "pointer"); st.set("flush_ms", flush_ms); st.set("config", 0); st.set("magic_delay_ms", (int) r.range(300, 1200)); }   // the interface answers the probe too late: the start fails
		else if (kind == "silent_after_late") { st.set("mode", "pointer"); st.set("flush_ms", flush_ms); st.set("config", 0); st.set("silent_bus", true); st.set("keep_pending", true); }
		// the node table changes while it is being read (an unconfigured leaf logs out and in again): the enumeration is aborted and restarted
		if ((kind == "normal" || kind == "serial_ok") && !for_compare && r.chance(300)) {
			std::vector<const cfg::Unknown *> leafs; for (auto &u : w.unknown) if (!u.addr.empty() && !(u.uid[0] & 0x80)) leafs.push_back(&u);
			if (!leafs.empty()) {
				const cfg::Unknown *u = leafs[r.below(leafs.size())];
				J sev = J::arr(); int t0 = (int) r.range(2240000, 2500000);
				J e1 = J::obj(); e1.set("at_us", t0); e1.set("topo", "lost"); e1.set("node", pc::jaddr(u->addr)); sev.push(e1);
				J e2 = J::obj(); e2.set("at_us", t0 + (int) r.range(500, 150000)); e2.set("topo", "new"); e2.set("node", pc::jaddr(u->addr)); sev.push(e2);
				se.set("start_bus", sev);
			}
		}
		se.set("start", st); se.set("phases", phs); se.set("stop", true);
		// accessory notifications keep arriving around the last flush of the shutdown (the receiver answers each with a query of its own, which may
		// be left in the send buffer when the library has stopped: the next session must not start with it)
		const cfg::Board *stop_notify_board = nullptr; int stop_notify_num = 0;
		if (!for_compare && r.chance(300)) for (auto &b : w.boards) if (b.present && (!b.points_board.empty() || !b.signals_board.empty())) { stop_notify_board = &b; stop_notify_num = !b.points_board.empty() ? b.points_board[0].number : b.signals_board[0].number; }
		if ((kind == "normal" || kind == "serial_ok") && flush_ms == 0 && stop_notify_board) {
			J sev = J::arr();
			for (int k = 0; k < 10; k++) { J e = J::obj(); e.set("at_us", 595000 + k * 5000); e.set("node", pc::jaddr(stop_notify_board->addr)); e.set("type", (int) MSG_ACCESSORY_NOTIFY); e.set("data", pc::jarr({stop_notify_num, 0, 4, 0, 0})); sev.push(e); }
			se.set("stop_bus", sev);
		}
		if (!for_compare) { if (r.chance(250)) se.set("stop_again", true); if (r.chance(250) && (kind == "normal" || kind == "debug")) { se.set("start_again", true); se.set("start_again_variant", (int) r.range(1, 5)); } }
		return se;
	}

	J generate(Rng &r, const std::string &tier, uint64_t) override {
		bool thorough = tier == "thorough";
		J plan = J::obj();
		cfg::GenOpts o; o.max_boards = thorough ? 4 : 3; o.max_trains = r.chance(200) ? 12 : 3; o.allow_absent = true;   // (more than six trains on one track output: the zero-speed commands of the shutdown exceed one response budget)
		cfg::World w = cfg::gen_world(r, o);
		cfg::install(plan, w, r);
		// one run in eight: the command stations never confirm a state change (MSG_CS_STATE answers lost on the bus): what the library has recorded as
		// their state stays at the initial value, the shutdown sequence must be commanded all the same
		if (r.chance(125)) { J bus = plan["bus"]; J da = J::arr(); da.push((int) MSG_CS_STATE); bus.set("drop_answers", da); plan.set("bus", bus); plan.set("cs_state_answers_lost", true); }
		// config 1: truncated copy of a file (start fails)
		{
			J cfgs = plan["configs"]; J bad = cfgs[0];
			static const char *names[3] = {"board", "track", "train"};
			const char *which = names[r.below(3)];
			std::string txt = bad.gets(which);
			uint64_t how = r.below(100);
			std::string tr = bad.gets("train"); size_t bp = std::string::npos;
			{ std::vector<size_t> hits; for (size_t p0 = tr.find("bit: "); p0 != std::string::npos; p0 = tr.find("bit: ", p0 + 1)) hits.push_back(p0); if (!hits.empty()) bp = hits[r.below(hits.size())]; }
			if (how < 45 || (how < 80 && bp == std::string::npos)) { J ft = J::obj(); J g = J::obj(); g.set("kind", "enoent"); ft.set(which, g); (void) txt; bad.set("faults", ft); }
			else if (how < 60) { bad.set("train", tr.substr(0, bp + 4)); plan.set("badcfg_kind", "train file ends after a peripheral's 'bit:' key"); }                         // torn write
			else if (how < 80) { size_t eol = tr.find('\n', bp); bad.set("train", tr.substr(0, bp + 5) + "0x40" + (eol == std::string::npos ? "" : tr.substr(eol))); plan.set("badcfg_kind", "peripheral bit out of range"); }
			else { std::vector<std::string> ls = cfgmut::split_lines(txt); size_t at = ls.empty() ? 0 : (size_t) r.below(ls.size()); ls.insert(ls.begin() + (long) at, "  @@@: [ {"); bad.set(which, cfgmut::join_lines(ls)); plan.set("badcfg_kind", "garbage line"); }
			cfgs.push(bad); plan.set("configs", cfgs);
		}
		static const char *kinds[] = {"debug", "normal", "normal", "serial_ok", "silent", "serial_fail", "badcfg"};
		int n = (int) r.range(2, thorough ? 5 : 4);
		J ss = J::arr();
		std::string last_kind, last_gen;
		for (int i = 0; i < n; i++) {
			std::string k = kinds[r.below(7)];
			if (last_gen == "late_magic") k = "silent_after_late";      // the late answer is still on the line when the next session probes a now silent interface
			else if (i < n - 2 && r.chance(120)) k = "late_magic";
			last_gen = k;
			if (i == n - 1) { if (k != "debug" && k != "normal" && k != "serial_ok") k = r.coin() ? "debug" : "normal"; last_kind = k; }
			ss.push(gen_session(r, k, w, i == n - 1));
		}
		// reference copy of the last session with fresh library statics
		J ref = ss[(size_t) n - 1]; ref.set("fresh", true); ref.set("reference_of", n - 1);
		ss.push(ref);
		plan.set("sessions", ss);
		J sc = sched_json(r, tier, 1, true);
		// the library decides "interface answers" by a 250 ms timeout: a receiver thread starved through that window makes a start fail
		// legitimately, so the thread-starvation fault is not combined with plans that state the expected start result of several sessions
		if (sc.geti("policy") == sim::P_STARVE) sc.set("policy", (int) sim::P_RANDOM);
		plan.set("sched", sc);
		return plan;
	}

	cfg::World world;
	size_t stop_wire_begin = 0;
	std::vector<int> created_before;
	std::map<std::string, int64_t> live_by_kind;
	std::vector<std::string> transcripts, states;
	int64_t live_after_loaded = -1;
	uint64_t leak_checks = 0, shutdown_msgs = 0, compared = 0, robust_compared = 0, expiry_dependent_not_compared = 0;
	std::set<int> thread_set_sizes;
	size_t tev_begin = 0;

	void attach(Engine &e) override {
		world = cfg::from_json(e.plan["world"]);
		live_by_kind.clear(); live_after_loaded = -1; transcripts.clear(); states.clear(); leak_checks = shutdown_msgs = compared = robust_compared = expiry_dependent_not_compared = 0; thread_set_sizes.clear(); tev_begin = 0;
	}

	void on_session_start(Engine &e, int s, int ret) override {
		const J &se = e.plan["sessions"][(size_t) s];
		std::string kind = se.gets("kind");
		int expect = (kind == "silent" || kind == "serial_fail" || kind == "badcfg" || kind == "late_magic" || kind == "silent_after_late") ? 1 : 0;
		if (ret != expect)
			e.violate("START_RETURN", kind, "start of a '" + kind + "' session returned " + std::to_string(ret) + ", expected " + std::to_string(expect));
		if (ret != 0) {
			// a failed start has already stopped the library: all threads it created must be joined
			check_threads(e, s, "after failed start");
		}
	}

	void check_threads(Engine &e, int s, const char *when) {
		const auto &tev = sim::thread_events();
		std::map<int, int> created, joined;
		for (size_t i = tev_begin; i < tev.size(); i++) { if (tev[i].kind == 'c') created[tev[i].task]++; else if (tev[i].task >= 0) joined[tev[i].task]++; }
		for (auto &kv : created) {
			int j = joined.count(kv.first) ? joined[kv.first] : 0;
			if (j != 1) e.violate(j == 0 ? "THREAD_NOT_JOINED" : "THREAD_JOINED_TWICE", sim::task(kv.first)->name, std::string("session ") + std::to_string(s) + " " + when + ": thread '" + sim::task(kv.first)->name + "' was joined " + std::to_string(j) + " times");
			if (sim::task(kv.first)->st != sim::T_DONE) e.violate("THREAD_STILL_RUNNING", sim::task(kv.first)->name, std::string(when) + ": library thread has not terminated");
		}
		thread_set_sizes.insert((int) created.size());
		tev_begin = tev.size();
	}

	void before_stop(Engine &e, int) override { stop_wire_begin = e.bus.wire.size(); }
	uint64_t alloc_marker = 0;

	void on_session_stop(Engine &e, int s) override {
		const J &se = e.plan["sessions"][(size_t) s];
		std::string kind = se.gets("kind");
		bool ran = e.start_ret == 0;
		if (ran) check_threads(e, s, "after stop");
		// ---- shutdown transcript
		std::vector<std::string> expect;
		bool cfg_loaded = (kind == "normal" || kind == "serial_ok");
		if (cfg_loaded && ran) {
			std::vector<const cfg::Board *> tos;
			for (auto &b : world.boards) if (b.present && b.track_output()) tos.push_back(&b);
			auto key = [](const std::vector<uint8_t> &ad, uint8_t type, std::vector<uint8_t> d) { ref::Msg m; m.addr = ad; m.type = type; m.data = d; return pc::msg_key(m); };
			for (auto *b : tos) expect.push_back(key(b->addr, MSG_CS_SET_STATE, {0x02}));
			for (auto &t : world.trains) for (auto *b : tos) {
				uint8_t fmt = t.steps == 28 ? 2 : t.steps == 126 ? 3 : 0;
				expect.push_back(key(b->addr, MSG_CS_DRIVE, {t.addrl, t.addrh, fmt, 0, 0, 0, 0, 0, 0}));
			}
			for (auto *b : tos) expect.push_back(key(b->addr, MSG_CS_SET_STATE, {0x00}));
		}
		std::vector<std::string> got;
		for (size_t i = stop_wire_begin; i < e.bus.wire.size(); i++) {
			const ref::Msg &m = e.bus.wire[i].msg;
			if (m.type == MSG_CS_SET_STATE || m.type == MSG_CS_DRIVE) got.push_back(pc::msg_key(m));
		}
		shutdown_msgs += got.size();
		if (got != expect) {
			std::string d = "expected [";
			for (auto &x : expect) d += x + " "; d += "] on the wire during bidib_stop, got [";
			for (auto &x : got) d += x + " "; d += "]";
			// A distinct situation, kept apart so that it can be listed as a known finding without hiding anything else: the receiver answers a burst of
			// accessory notifications with queries of its own during the last milliseconds of the stop; five of them outstanding use up the node's
			// response budget at the very instant track-off is submitted, which is then held back and discarded.
			size_t recv_queries = 0; for (size_t i = stop_wire_begin; i < e.bus.wire.size(); i++) if (e.bus.wire[i].msg.type == MSG_ACCESSORY_GET) recv_queries++;
			bool only_tail_missing = got.size() < expect.size() && std::equal(got.begin(), got.end(), expect.begin());
			if (recv_queries >= 5 && only_tail_missing) e.violate("SHUTDOWN_HELD_BACK_BY_RECEIVER_QUERIES", kind, d + "; the receiver had put " + std::to_string(recv_queries) + " MSG_ACCESSORY_GET of its own on the wire during the stop");
			e.violate("SHUTDOWN_SEQUENCE", kind, d);
		}
		// ---- leaks: live library heap after stop vs. previous session of the same kind
		int64_t live = sim::lib_live_bytes();
		if (sim::lib_total_allocs() > 0) {
			std::string lk = kind + (se.getb("start_again") ? "+again" : "");
			auto it = live_by_kind.find(lk);
			if (it != live_by_kind.end()) {
				leak_checks++;
				if (live > it->second && getenv("VERIF_LEAKDBG")) sim::dump_live_since(alloc_marker);
				if (live > it->second)
					e.violate("LEAK", kind, "library-attributed live heap is " + std::to_string(live) + " bytes after stopping session " + std::to_string(s) + " but was " + std::to_string(it->second) + " after the previous '" + kind + "' session (" + std::to_string(live - it->second) + " bytes not released)");
			}
			live_by_kind[lk] = live;
		}
		// a start that was rejected must have released everything it allocated: not more library heap than after the last session that had loaded a
		// configuration successfully (the process-lifetime allocations of parsing have been made by then)
		if (sim::lib_total_allocs() > 0) {
			if (kind == "badcfg" && live_after_loaded >= 0) {
				leak_checks++;
				if (live > live_after_loaded)
					e.violate("LEAK", "badcfg", "library-attributed live heap is " + std::to_string(live) + " bytes after the rejected start of session " + std::to_string(s) + " (" + e.plan.gets("badcfg_kind", "missing file") + ") but was " + std::to_string(live_after_loaded) + " after the last session that had loaded a configuration (" + std::to_string(live - live_after_loaded) + " bytes not released)");
			}
			if (kind == "normal" || kind == "serial_ok") live_after_loaded = live;
		}
		alloc_marker = sim::lib_total_allocs();
		// ---- transcript for the session-equality check
		std::string tr;
		size_t b = e.session_wire_begin[(size_t) s];
		size_t last_pkt = (size_t) -1;
		for (size_t i = b; i < e.bus.wire.size(); i++) {
			const bus::WireRec &w = e.bus.wire[i];
			if (w.pkt_index != last_pkt) { tr += "|"; last_pkt = w.pkt_index; }
			char sq[8]; snprintf(sq, sizeof sq, "#%u ", w.msg.seq);
			tr += pc::msg_key(w.msg) + sq;
		}
		std::string st;
		for (auto &o : e.oplog) if (o.session == s && o.op->gets("op") == "get") st += o.result.dump();
		for (auto &o : e.oplog) if (o.session == s && o.has_bytes) st += hex_of(o.bytes);
		// Scheduling faults (descheduling at lock points, starvation) hit the session and its reference copy at different moments:
		// packet boundaries, the interleaving of receiver-made and application-made messages and the moment a getter runs relative
		// to an answer then legitimately differ. Such runs compare what does not depend on timing: the multiset of messages per
		// destination. Unperturbed runs (two thirds) compare transcripts, packet boundaries, getter results and read messages exactly.
		bool perturbed = e.plan["sched"].geti("preempt_permille", 0) > 0 || e.plan["sched"].geti("policy", 0) == sim::P_STARVE;
		if (perturbed) {
			std::vector<std::string> keys;
			for (size_t i = b; i < e.bus.wire.size(); i++) keys.push_back(pc::msg_key(e.bus.wire[i].msg));
			std::sort(keys.begin(), keys.end());
			// (a session in which the application resets the system: what is still held back when the reset begins is void and dropped (fix 73611d4) -
			// whether a start-up message is still held back at that moment depends on the timing; such sessions compare the SET of messages)
			bool has_reset = false; for (size_t q = 0; q < se["phases"].size(); q++) { const J &ph = se["phases"][q]; for (size_t k2 = 0; k2 < ph["pre"].size(); k2++) if (ph["pre"][k2].gets("op") == "reset") has_reset = true; }
			if (has_reset) keys.erase(std::unique(keys.begin(), keys.end()), keys.end());
			tr.clear(); for (auto &k : keys) tr += k + " ";
			st.clear();      // (a getter result depends on which answers have arrived when it runs)
			robust_compared++;
		}
		transcripts.push_back(tr);
		states.push_back(st);
		// Lost answers bring the library's 2 s expiry (whole seconds of time()) into play: whether a held-back message is released before the stop
		// depends on where in its second the session began, which differs between a session and its reference copy. Those runs keep every other
		// oracle (shutdown sequence, threads, heap) and skip the transcript comparison.
		if (se.has("reference_of") && e.plan.getb("cs_state_answers_lost")) { expiry_dependent_not_compared++; }
		else if (se.has("reference_of")) {
			size_t r0 = (size_t) se.geti("reference_of");
			compared++;
			if (transcripts[r0] != transcripts[(size_t) s] || states[r0] != states[(size_t) s]) {
				// first difference
				const std::string &a = transcripts[r0], &c = transcripts[(size_t) s];
				size_t k = 0; while (k < a.size() && k < c.size() && a[k] == c[k]) k++;
				std::string d = "session " + std::to_string(r0) + " (after " + std::to_string(r0) + " earlier sessions) and its fresh-state reference differ";
				if (a != c) d += "; downlink transcripts diverge at offset " + std::to_string(k) + ": '" + a.substr(k > 40 ? k - 40 : 0, 120) + "' vs '" + c.substr(k > 40 ? k - 40 : 0, 120) + "'";
				else d += "; getter results / read messages differ";
				e.violate("SESSION_DIFFERS", kind, d);
			}
		}
	}

	void coverage(Engine &e, J &f) override {
		f.set("nontrivial", e.plan["sessions"].size() >= 3 && thread_set_sizes.size() >= 2);
		f.set("shape", (long long) (pc::shape_hash(e.plan) >> 1));
		J p = J::obj(); p.set("leak_comparisons", (long long) leak_checks); p.set("shutdown_messages_checked", (long long) shutdown_msgs); p.set("reference_comparisons", (long long) compared); p.set("reference_comparisons_timing_robust_form", (long long) robust_compared); p.set("runs_with_lost_cs_state_answers", e.plan.getb("cs_state_answers_lost") ? 1 : 0);
		p.set("sessions", (long long) e.plan["sessions"].size());
		f.set("probes", p);
	}
};

}  // namespace

Prop *make_c16() { return new C16(); }

// C09 — high-level commands emit exactly the configured messages, or nothing (return 1).
#include "common.h"
#include "cfggen.h"
#include "apiops.h"
#include "statemodel.h"

namespace {

struct Exp { int ret = 1; std::vector<ref::Msg> msgs; bool estop = false; std::string why; };

struct C09 : Prop {
	const char *id() const override { return "C09"; }
	std::string rule() const override {
		return "plan = generated worlds (some configured boards absent); sequences of every high-level command over configured ids x aspects, speeds -130..130, calibrated "
		       "speeds, function states, unknown ids, NULLs, disconnected boards, boards of the wrong class, one command per quiescent step; between commands the bus changes "
		       "what 'current' means: NODE_LOST / NODE_NEW (re-login at another address) and CS_DRIVE_MANUAL reports that change function bits and direction. Oracle: "
		       "reference model configuration -> expected messages (board's current address, accessory number / port / DCC address, aspect value, speed byte with the "
		       "direction kept at speed 0, function-group bits with the rest of the group preserved); return 0 => exactly those messages on the wire after flush and the "
		       "tracked state as predicted; return 1 => no new downlink message and bidib_get_state unchanged. Concurrent phases: 2-4 tasks issue train commands on one train at once "
		       "(the downlink must be the output of ONE serial order of the commands: search over assignments of wire messages to pending commands); in four of ten such "
		       "phases the command station reports manual drive commands for that train meanwhile: then one total order of wire messages and uplink frames must exist that "
		       "respects real-time precedence (a report takes effect between delivery and known-processed, a command between invocation and return / emission), "
		       "explains every message on the state reached and ends in the state bidib_get_state reports. non-trivial = >=1 command addressed a re-logged-in board "
		       "or used function bits changed by the bus, and >=1 command was refused; distinct = (shape, trace).";
	}
	bool conc_heavy = false;      // C10 delegates its command-atomicity sub-workload to this generator + oracle
	J generate(Rng &r, const std::string &tier, uint64_t) override {
		bool thorough = tier == "thorough";
		J plan = J::obj();
		cfg::GenOpts o; o.max_boards = thorough ? 5 : 3; o.max_trains = 3; o.allow_absent = true;
		cfg::World w = cfg::gen_world(r, o);
		// keep function bits inside the DCC function groups (bits 5-7 of the first byte do not exist)
		for (auto &t : w.trains) for (auto &p : t.periphs) if (p.bit >= 5 && p.bit < 8) p.bit = (uint8_t) (p.bit + 8);
		for (auto &t : w.trains) { std::set<int> seen; for (auto it = t.periphs.begin(); it != t.periphs.end();) { if (seen.count(it->bit)) it = t.periphs.erase(it); else { seen.insert(it->bit); ++it; } } if (!t.calibration.empty() && t.periphs.empty()) t.calibration.clear(); }
		cfg::install(plan, w, r);
		api::Ids ids = api::collect(w);
		J se = cfg::normal_session(0, r.chance(700) ? 0 : (int) r.range(5, 40));
		J phs = J::arr();
		{ J ph = J::obj(); ph.set("check", true); J post = J::arr(); post.push("quiesce"); ph.set("post", post); phs.push(ph); }
		struct N { std::vector<uint8_t> addr; bool present; bool iface; };
		std::vector<N> ns; for (auto &b : w.boards) ns.push_back({b.addr, b.present, b.is_iface()});
		int nsteps = (int) r.range(4, thorough ? 50 : 25);
		int p_conc = conc_heavy ? 45 : 8;
		int relogin_next = -1;
		for (int i = 0; i < nsteps; i++) {
			J ph = J::obj();
			uint64_t x = relogin_next >= 0 ? 99 : r.below(100);
			// (track outputs that are on the bus right now: a board that is absent - whether the host knows or not - answers nothing,
			// its commands pile up behind the response budget)
			std::vector<std::string> tos_now;
			for (size_t q = 0; q < w.boards.size() && q < ns.size(); q++) if (ns[q].present && w.boards[q].track_output()) tos_now.push_back(w.boards[q].id);
			if (relogin_next < 0 && (int) r.below(100) < p_conc && !w.trains.empty() && !tos_now.empty()) {
				// concurrent train commands (same train, mostly functions of one group): the downlink must be explainable by ONE serial order
				// (one track output per phase: the wire order is the serial order only per node - the response budget may defer one node's messages)
				const cfg::Train &t = w.trains[r.below(w.trains.size())];
				const std::string to_id = tos_now[r.below(tos_now.size())];
				J tasks = J::arr();
				int nt = (int) r.range(2, conc_heavy ? 4 : 3);
				for (int k = 0; k < nt; k++) {
					J ops = J::arr();
					for (int q = 0, nq = (int) r.range(1, 3); q < nq; q++) {
						J op = J::obj(); op.set("op", "hl"); J s = J::arr(); J iv = J::arr();
						const cfg::Train &tt = r.chance(850) ? t : w.trains[r.below(w.trains.size())];
						s.push(tt.id);
						if (!tt.periphs.empty() && r.chance(750)) { op.set("fn", "set_train_peripheral"); s.push(tt.periphs[r.below(tt.periphs.size())].id); s.push(to_id); iv.push((int) r.below(2)); }
						else if (r.chance(850)) { op.set("fn", "set_train_speed"); s.push(to_id); iv.push(r.chance(300) ? 0 : (int) r.range(-126, 126)); }
						else { op.set("fn", "emergency_stop_train"); s.push(to_id); }
						op.set("s", s); op.set("i", iv); ops.push(op);
					}
					tasks.push(ops);
				}
				ph.set("tasks", tasks); ph.set("conc", true);
				// four concurrent phases in ten: the command station reports manual drive commands for the same train meanwhile (function bits,
				// speed and direction change behind the commands' backs): commands AND reports must then be explained by one serial order
				if (r.chance(400)) {
					const cfg::Board *tb = w.board(to_id);
					if (tb) {
						J ev = J::arr();
						for (int k = 0, n = (int) r.range(1, 3); k < n; k++) {
							J e = J::obj(); e.set("at_us", (int) r.range(0, 3) * 5000); e.set("node", pc::jaddr(tb->addr)); e.set("type", (int) MSG_CS_DRIVE_MANUAL);
							e.set("data", pc::jarr({t.addrl, t.addrh, 3, (int) r.below(64), (int) r.byte(), (int) r.below(32), (int) r.byte(), (int) r.byte(), (int) r.byte()}));
							ev.push(e);
						}
						ph.set("bus", ev); ph.set("conc_fb", true);
						J tasks2 = J::arr();
						for (size_t k = 0; k < tasks.size(); k++) { J ops = J::arr(); if (r.coin()) { J sl = J::obj(); sl.set("op", "sleep"); sl.set("us", (int) r.range(0, 3) * 5000); ops.push(sl); } for (size_t q = 0; q < tasks[k].size(); q++) ops.push(tasks[k][q]); tasks2.push(ops); }
						ph.set("tasks", tasks2);
					}
				}
			} else if (x < 72) {
				J pre = J::arr(); J op = api::hl_op(r, ids);
				if (op.gets("fn") == "set_train_peripheral") { J iv = J::arr(); iv.push((int) r.below(2)); op.set("i", iv); }
				pre.push(op); ph.set("pre", pre);
			} else if (x < 86 && !w.trains.empty()) {
				// manual drive report: changes function bits / direction behind the user's back
				const cfg::Train &t = w.trains[r.below(w.trains.size())];
				std::vector<const cfg::Board *> tos; for (auto &b : w.boards) if (b.present && b.track_output()) tos.push_back(&b);
				if (tos.empty()) continue;
				J ev = J::arr(); J e = J::obj(); e.set("at_us", 0); e.set("node", pc::jaddr(tos[0]->addr)); e.set("type", (int) MSG_CS_DRIVE_MANUAL);
				e.set("data", pc::jarr({t.addrl, t.addrh, 3, (int) r.below(64), (int) r.byte(), (int) r.below(32), (int) r.byte(), (int) r.byte(), (int) r.byte()}));
				ev.push(e); ph.set("bus", ev);
			} else {
				size_t k = relogin_next >= 0 ? (size_t) relogin_next : r.below(ns.size());
				relogin_next = -1;
				if (ns[k].addr.empty()) continue;
				// an interface beneath the root only ever leaves (taking everything beneath it with it); boards beneath an absent interface cannot log in
				if (ns[k].iface && !(ns[k].present && r.chance(500))) continue;
				{ bool parent_gone = false; for (auto &y : ns) if (y.iface && !y.present && !y.addr.empty() && y.addr.size() < ns[k].addr.size() && std::equal(y.addr.begin(), y.addr.end(), ns[k].addr.begin())) parent_gone = true; if (parent_gone) continue; }
				J ev = J::arr(); J e = J::obj(); e.set("at_us", 0); e.set("node", pc::jaddr(ns[k].addr));
				if (ns[k].present) {
					e.set("topo", "lost"); ns[k].present = false;
					if (ns[k].iface) { for (auto &y : ns) if (y.addr.size() > ns[k].addr.size() && std::equal(ns[k].addr.begin(), ns[k].addr.end(), y.addr.begin())) y.present = false; ph.set("hub_lost", true);
						// the interface repeats the notice (its acknowledgement was late): must change nothing
						if (r.chance(400)) { J fs = J::arr(); J f = J::obj(); f.set("kind", "dup"); f.set("a", (int) r.below(2)); fs.push(f); e.set("faults", fs); } }
					// the notice itself is lost on the bus: the host still believes the board connected when it logs in again (possibly elsewhere)
					// (it logs in again in the very next step: an absent board that the host keeps commanding answers nothing and its requests pile up)
					if (!ns[k].iface && r.chance(200)) { J fs = J::arr(); J f = J::obj(); f.set("kind", "lose"); fs.push(f); e.set("faults", fs); relogin_next = (int) k; }
				}
				else {
					e.set("topo", "new");
					if (r.chance(500)) { std::vector<uint8_t> na = {(uint8_t) r.range(70, 120)}; bool used = false; for (auto &y : ns) if (y.addr == na) used = true; for (auto &u : w.unknown) if (u.addr == na) used = true;   /* (nodes the configuration does not know occupy addresses too) */ if (!used) { e.set("as", pc::jaddr(na)); ns[k].addr = na; } }
					ns[k].present = true;
				}
				ev.push(e); ph.set("bus", ev);
			}
			ph.set("check", true);
			J post = J::arr(); post.push("quiesce"); ph.set("post", post);
			phs.push(ph);
		}
		se.set("phases", phs);
		J ss = J::arr(); ss.push(se); plan.set("sessions", ss);
		J sc = sched_json(r, tier, conc_heavy ? 4 : 2, true); cfg::starve_after_startup(sc, r);
		plan.set("sched", sc);
		return plan;
	}

	sm::Model model;
	std::function<void(const ref::Msg &)> on_wire;       // called for every downlink message before the model applies it
	uint64_t conc_phases = 0, conc_overlaps = 0, conc_msgs = 0;
	size_t wire_pos = 0, frame_pos = 0;
	J last_state;
	bool have_last = false, armed = false;
	uint64_t held_by_budget = 0, accepted = 0, refused = 0, relogin_cmds = 0, manual_bits_used = 0, state_checks = 0;
	std::set<std::string> relogged, manual_trains;

	void attach(Engine &e) override {
		model = sm::Model(); model.init(cfg::from_json(e.plan["world"]));
		wire_pos = frame_pos = 0; have_last = false; armed = false; held_by_budget = accepted = refused = relogin_cmds = manual_bits_used = state_checks = 0; relogged.clear(); manual_trains.clear();
		on_wire = nullptr; conc_phases = conc_overlaps = conc_msgs = 0; fb_phases = fb_ambiguous = fb_budget_exhausted = fb_nodes = 0; resync_trains = false;
	}
	void before_stop(Engine &, int) override { armed = false; }

	void ingest(Engine &e) {
		for (;;) {
			bool has_w = wire_pos < e.bus.wire.size();
			while (frame_pos < e.bus.done.size() && e.bus.done[frame_pos].processed && (e.bus.done[frame_pos].corrupted || e.bus.done[frame_pos].msgs.empty())) frame_pos++;
			bool has_f = frame_pos < e.bus.done.size() && e.bus.done[frame_pos].processed;
			if (!has_w && !has_f) break;
			uint64_t ws = has_w ? e.bus.wire[wire_pos].step : UINT64_MAX, fs = has_f ? e.bus.done[frame_pos].last_read_step : UINT64_MAX;
			if (ws <= fs) { if (on_wire) on_wire(e.bus.wire[wire_pos].msg); model.apply_downlink(e.bus.wire[wire_pos].msg); wire_pos++; }
			else {
				for (auto &m : e.bus.done[frame_pos].msgs) {
					if (armed && m.type == MSG_NODE_NEW && m.data.size() >= 9) for (auto &b : model.w.boards) if (!memcmp(b.uid, &m.data[2], 7)) relogged.insert(b.id);
					if (armed && m.type == MSG_CS_DRIVE_MANUAL && m.data.size() >= 9) { const cfg::Train *t = model.train_by_addr(m.data[0], m.data[1]); if (t) manual_trains.insert(t->id); }
					model.apply_uplink(m);
				}
				frame_pos++;
			}
		}
	}

	void on_session_start(Engine &e, int, int ret) override {
		if (ret != 0) return;
		model.set_connected_from_tree(e.bus);
		ingest(e);
		for (auto &b : model.w.boards) {
			if (!model.conn[b.id].connected) continue;
			for (const std::vector<cfg::DccAcc> *v : {&b.points_dcc, &b.signals_dcc}) for (auto &a : *v) if (!a.initial.empty()) {
				model.set_dcc_state_id(a.id, a.initial);
				int nports = 0; for (auto &as : a.aspects) if (as.id == a.initial) nports = (int) as.ports.size();
				int seen = 0; for (auto &wr : e.bus.wire) if (wr.msg.type == MSG_CS_ACCESSORY && wr.msg.data.size() >= 2 && wr.msg.data[0] == a.addrl && wr.msg.data[1] == a.addrh) seen++;
				model.pending_hl[a.id] += std::max(0, nports - seen);
			}
		}
		armed = true;
	}

	// ---- configuration -> expected messages
	static ref::Msg mk(const std::vector<uint8_t> &addr, uint8_t type, std::vector<uint8_t> d) { ref::Msg m; m.addr = addr; m.type = type; m.data = d; return m; }
	static uint8_t fmt_of(const cfg::Train &t) { return t.steps == 28 ? 2 : t.steps == 126 ? 3 : 0; }

	Exp expect(const J &op) {
		Exp x;
		const std::string &fn = op.gets("fn");
		const J &s = op["s"]; const J &iv = op["i"];
		auto str = [&](size_t i) -> const std::string * { return (i < s.size() && s[i].is_str()) ? &s[i].s : nullptr; };
		auto board_ok = [&](const std::string &id, const cfg::Board *&b) { b = model.w.board(id); return b && model.conn[b->id].connected; };
		for (size_t i = 0; i < s.size(); i++) if (s[i].is_null()) { x.why = "NULL argument"; return x; }
		if (fn == "switch_point" || fn == "set_signal") {
			bool point = fn == "switch_point";
			for (auto &b : model.w.boards) {
				for (auto &a : point ? b.points_board : b.signals_board) if (a.id == *str(0)) {
					if (!model.conn[b.id].connected) { x.why = "board not connected"; return x; }
					for (auto &as : a.aspects) if (as.id == *str(1)) { x.ret = 0; x.msgs.push_back(mk(model.conn[b.id].addr, MSG_ACCESSORY_SET, {a.number, as.value})); return x; }
					x.why = "aspect not defined"; return x;
				}
				for (auto &a : point ? b.points_dcc : b.signals_dcc) if (a.id == *str(0)) {
					if (!model.conn[b.id].connected) { x.why = "board not connected"; return x; }
					for (auto &as : a.aspects) if (as.id == *str(1)) {
						x.ret = 0;
						for (auto &pv : as.ports) x.msgs.push_back(mk(model.conn[b.id].addr, MSG_CS_ACCESSORY, {a.addrl, a.addrh, (uint8_t) ((pv.port & 0x1F) | (pv.value << 5) | (a.extended << 7)), 0}));
						return x;
					}
					x.why = "aspect not defined"; return x;
				}
			}
			x.why = "unknown accessory"; return x;
		}
		if (fn == "set_peripheral") {
			for (auto &b : model.w.boards) for (auto &p : b.periphs) if (p.id == *str(0)) {
				if (!model.conn[b.id].connected) { x.why = "board not connected"; return x; }
				for (auto &as : p.aspects) if (as.id == *str(1)) { x.ret = 0; x.msgs.push_back(mk(model.conn[b.id].addr, MSG_LC_OUTPUT, {p.port0, p.port1, as.value})); return x; }
				x.why = "aspect not defined"; return x;
			}
			x.why = "unknown peripheral"; return x;
		}
		if (fn == "set_train_speed" || fn == "set_calibrated_train_speed" || fn == "emergency_stop_train" || fn == "set_train_peripheral") {
			const cfg::Train *t = model.w.train(*str(0));
			size_t to_idx = fn == "set_train_peripheral" ? 2 : 1;
			const cfg::Board *b = nullptr;
			int speed = 0;
			if (fn == "set_train_speed") { speed = (int) iv[0].num(); if (speed < -126 || speed > 126) { x.why = "speed out of range"; return x; } }
			if (fn == "set_calibrated_train_speed") { int cs = (int) iv[0].num(); if (cs < -9 || cs > 9) { x.why = "calibrated speed out of range"; return x; } }
			if (!t) { x.why = "unknown train"; return x; }
			if (fn == "set_calibrated_train_speed") {
				if (t->calibration.empty()) { x.why = "no calibration"; return x; }
				int cs = (int) iv[0].num(); speed = cs == 0 ? 0 : (cs > 0 ? t->calibration[(size_t) cs - 1] : -t->calibration[(size_t) (-cs) - 1]);
			}
			if (!board_ok(*str(to_idx), b)) { x.why = "track output unknown or not connected"; return x; }
			if (!b->track_output()) { x.why = "board is no track output"; return x; }
			const std::vector<uint8_t> &ad = model.conn[b->id].addr;
			const sm::TrainS &ts = model.tr[t->id];
			if (fn == "emergency_stop_train") { x.ret = 0; x.estop = true; x.msgs.push_back(mk(ad, MSG_CS_DRIVE, {t->addrl, t->addrh, fmt_of(*t), 0x01, 0x81, 0, 0, 0, 0})); return x; }
			if (fn == "set_train_speed" || fn == "set_calibrated_train_speed") {
				bool fwd = speed > 0 ? true : speed < 0 ? false : ts.fwd;
				uint8_t sb = (uint8_t) (((fwd ? 0x80 : 0) | std::abs(speed)) + (speed != 0 ? 1 : 0));
				x.ret = 0; x.msgs.push_back(mk(ad, MSG_CS_DRIVE, {t->addrl, t->addrh, fmt_of(*t), 0x01, sb, 0, 0, 0, 0})); return x;
			}
			// set_train_peripheral
			const cfg::TrainPeriph *tp = nullptr; for (auto &p : t->periphs) if (p.id == *str(1)) tp = &p;
			if (!tp) { x.why = "unknown train peripheral"; return x; }
			int lo, hi; uint8_t active;
			if (tp->bit < 5) { lo = 0; hi = 4; active = 0x02; } else if (tp->bit < 12) { lo = 8; hi = 11; active = 0x04; } else if (tp->bit < 16) { lo = 12; hi = 15; active = 0x08; }
			else if (tp->bit < 24) { lo = 16; hi = 23; active = 0x10; } else { lo = 24; hi = 31; active = 0x20; }
			uint8_t f[4] = {0, 0, 0, 0};
			for (auto &p : t->periphs) if (p.bit >= lo && p.bit <= hi) f[p.bit / 8] |= (uint8_t) (ts.periph.at(p.id) << (p.bit % 8));
			f[tp->bit / 8] &= (uint8_t) ~(1u << (tp->bit % 8));
			f[tp->bit / 8] |= (uint8_t) ((iv[0].num() & 1) << (tp->bit % 8));
			x.ret = 0; x.msgs.push_back(mk(ad, MSG_CS_DRIVE, {t->addrl, t->addrh, fmt_of(*t), active, 0x00, f[0], f[1], f[2], f[3]}));
			return x;
		}
		const cfg::Board *b = nullptr;
		if (fn == "set_booster_power_state") { if (!board_ok(*str(0), b)) { x.why = "board unknown or not connected"; return x; } if (!b->booster()) { x.why = "board is no booster"; return x; } x.ret = 0; x.msgs.push_back(mk(model.conn[b->id].addr, iv[0].num() ? MSG_BOOST_ON : MSG_BOOST_OFF, {1})); return x; }
		if (fn == "set_track_output_state") { if (!board_ok(*str(0), b)) { x.why = "board unknown or not connected"; return x; } if (!b->track_output()) { x.why = "board is no track output"; return x; } x.ret = 0; x.msgs.push_back(mk(model.conn[b->id].addr, MSG_CS_SET_STATE, {(uint8_t) iv[0].num()})); return x; }
		if (fn == "request_reverser_state") {
			if (!board_ok(*str(1), b)) { x.why = "board unknown or not connected"; return x; }
			const cfg::Reverser *rv = nullptr; for (auto &bb : model.w.boards) for (auto &q : bb.revs) if (q.id == *str(0)) rv = &q;
			if (!rv) { x.why = "unknown reverser"; return x; }
			std::vector<uint8_t> d; d.push_back((uint8_t) rv->cv.size()); for (char c : rv->cv) d.push_back((uint8_t) c);
			x.ret = 0; x.msgs.push_back(mk(model.conn[b->id].addr, MSG_VENDOR_GET, d)); return x;
		}
		if (fn == "ping" || fn == "identify" || fn == "get_protocol_version" || fn == "get_software_version") {
			if (!board_ok(*str(0), b)) { x.why = "board unknown or not connected"; return x; }
			const std::vector<uint8_t> &ad = model.conn[b->id].addr;
			x.ret = 0;
			if (fn == "ping") x.msgs.push_back(mk(ad, MSG_SYS_PING, {(uint8_t) iv[0].num()}));
			else if (fn == "identify") x.msgs.push_back(mk(ad, MSG_SYS_IDENTIFY, {(uint8_t) iv[0].num()}));
			else if (fn == "get_protocol_version") x.msgs.push_back(mk(ad, MSG_SYS_GET_P_VERSION, {}));
			else x.msgs.push_back(mk(ad, MSG_SYS_GET_SW_VERSION, {}));
			return x;
		}
		x.ret = -1; return x;
	}

	J lib_state() { sim::ApiScope api("bidib_get_state"); return getters::call("state", {}, J::arr()); }

	void after_op(Engine &e, OpRec &o) override {
		if (!armed || o.op->gets("op") != "hl") return;
		if (e.plan["sessions"][(size_t) o.session]["phases"][(size_t) o.phase].getb("conc")) return;     // judged at the end of the phase
		const std::string &fn = o.op->gets("fn");
		Exp x = expect(*o.op);          // computed on the model state BEFORE the command's own effects are ingested
		if (x.ret < 0) return;
		{ sim::ApiScope api("bidib_flush"); bidib_flush(); }
		std::vector<ref::Msg> got;
		for (size_t i = o.wire_before; i < e.bus.wire.size(); i++) got.push_back(e.bus.wire[i].msg);
		std::string call = "bidib_" + fn + "(" + (*o.op)["s"].dump() + (*o.op)["i"].dump() + ")";
		if ((int) o.ret != x.ret)
			e.violate(x.ret == 0 ? "COMMAND_REFUSED" : "COMMAND_ACCEPTED", fn, call + " returned " + std::to_string(o.ret) + ", expected " + std::to_string(x.ret) + (x.why.empty() ? "" : " (" + x.why + ")"));
		if (x.ret == 1) {
			refused++;
			if (!got.empty()) e.violate("SENT_ON_REFUSAL", fn, call + " returned 1 (" + x.why + ") but put " + std::to_string(got.size()) + " message(s) on the wire, first " + pc::msg_key(got[0]));
		} else {
			accepted++;
			bool same = got.size() == x.msgs.size();
			for (size_t i = 0; same && i < got.size(); i++) {
				if (x.estop && got[i].type == MSG_CS_DRIVE && got[i].data.size() == 9 && x.msgs[i].data.size() == 9) { auto a = got[i].data, b = x.msgs[i].data; a[4] &= 0x7F; b[4] &= 0x7F; if (a != b || got[i].addr != x.msgs[i].addr) same = false; }
				else if (pc::msg_key(got[i]) != pc::msg_key(x.msgs[i])) same = false;
			}
			// a board the host believes connected (its MSG_NODE_LOST was lost on the bus) answers nothing: once the unanswered requests use up the
			// 48-byte response budget of its address, further commands are rightly held back instead of being transmitted
			if (!same && got.empty() && !x.msgs.empty()) {
				const std::vector<uint8_t> &ad = x.msgs[0].addr;
				uint64_t last_up = 0; for (auto &f : e.bus.done) if (!f.corrupted) for (auto &m : f.msgs) if (m.addr == ad) last_up = std::max(last_up, f.last_read_step);
				int outstanding = 0; for (size_t i = 0; i < o.wire_before; i++) if (e.bus.wire[i].msg.addr == ad && e.bus.wire[i].step > last_up) outstanding += pc::resp_info(e.bus.wire[i].msg.type).size;
				if (pc::resp_info(x.msgs[0].type).size > 0 && outstanding + pc::resp_info(x.msgs[0].type).size > 48) {
					same = true; held_by_budget++;
					for (auto &m : x.msgs) model.apply_downlink(m);     // the optimistic state does not wait for the transmission
				}
			}
			if (!same) {
				std::string d = call + " returned 0; expected on the wire [";
				for (auto &m : x.msgs) d += pc::msg_key(m) + " "; d += "] but got [";
				for (auto &m : got) d += pc::msg_key(m) + " "; d += "]";
				e.violate("WRONG_MESSAGES", fn, d);
			}
			const J &s = (*o.op)["s"];
			for (size_t i = 0; i < s.size(); i++) if (s[i].is_str() && relogged.count(s[i].s)) relogin_cmds++;
			if (fn == "set_train_peripheral" && s[0].is_str() && manual_trains.count(s[0].s)) manual_bits_used++;
		}
		// now the command's own optimistic effects: they take place when the command runs, i.e. before any answer to its message
		// (the calling thread may be descheduled inside the call and return only after the answer was processed)
		bool applied = o.ret != 0;
		auto effect = [&]() {
			if (applied) return;
			applied = true;
			const J &s = (*o.op)["s"];
			if (fn == "switch_point" || fn == "set_signal") {
				// (the CS_ACCESSORY messages of the command itself do not clear the aspect id the command has just set)
				int ncs = 0; for (auto &m : x.msgs) if (m.type == MSG_CS_ACCESSORY) ncs++;
				if (ncs) model.pending_hl[s[0].str()] += ncs;
				model.set_dcc_state_id(s[0].str(), s[1].str());
			}
			if (fn == "request_reverser_state") model.request_reverser(s[0].str());
		};
		size_t first_own = o.wire_before;
		on_wire = [&](const ref::Msg &) { if (wire_pos >= first_own) effect(); };
		ingest(e);
		on_wire = nullptr;
		effect();
	}

	// Concurrent commands: all train setters hold bidib_trains_rwlock exclusively from reading the state to sending, so the order of
	// their messages on the wire is their serial order. Every downlink message of the phase must be the expected message of the
	// next unmatched command of some task, computed on the model state produced by the messages before it.
	void judge_concurrent(Engine &e, int s, int p) {
		std::map<int, std::vector<OpRec *>> by_task;
		for (auto &o : e.oplog) if (o.session == s && o.phase == p && o.op->gets("op") == "hl") by_task[o.task].push_back(&o);
		conc_phases++;
		{ bool ov = false; std::vector<OpRec *> all; for (auto &kv : by_task) for (auto *o : kv.second) all.push_back(o);
		  for (size_t i = 0; i < all.size(); i++) for (size_t j = i + 1; j < all.size(); j++) if (all[i]->task != all[j]->task && all[i]->inv_step < all[j]->ret_step && all[j]->inv_step < all[i]->ret_step) ov = true;
		  if (ov) conc_overlaps++; }
		// refused commands: the reasons are static during the phase (no topology change): the model must refuse them too
		for (auto &kv : by_task) for (auto *o : kv.second) {
			Exp x = expect(*o->op);
			if (x.ret >= 0 && (x.ret == 1) != (o->ret == 1))
				e.violate(x.ret == 0 ? "COMMAND_REFUSED" : "COMMAND_ACCEPTED", o->op->gets("fn"), "concurrent bidib_" + o->op->gets("fn") + (*o->op)["s"].dump() + (*o->op)["i"].dump() + " returned " + std::to_string(o->ret) + ", expected " + std::to_string(x.ret) + " (" + x.why + ")");
			if (o->ret == 1) refused++; else accepted++;
		}
		// match matrix: row i = which accepted commands would produce wire message i on the model state before it (the state is a
		// function of the wire prefix alone, not of the matching); then search an assignment that respects each task's program order
		std::vector<std::pair<int, size_t>> cmds;                 // (task, index in task) of accepted commands
		for (auto &kv : by_task) for (size_t i = 0; i < kv.second.size(); i++) if (kv.second[i]->ret == 0) cmds.push_back({kv.first, i});
		std::vector<std::vector<bool>> match;
		std::vector<ref::Msg> msgs;
		std::vector<std::string> want_at;
		on_wire = [&](const ref::Msg &m) {
			conc_msgs++;
			std::vector<bool> row; std::string w;
			for (auto &c : cmds) {
				OpRec *o = by_task[c.first][c.second];
				Exp x = expect(*o->op);
				bool same = false;
				if (x.ret == 0 && x.msgs.size() == 1) {
					if (x.estop && m.type == MSG_CS_DRIVE && m.data.size() == 9) { auto a = m.data, b = x.msgs[0].data; a[4] &= 0x7F; b[4] &= 0x7F; same = a == b && m.addr == x.msgs[0].addr; }
					else same = pc::msg_key(m) == pc::msg_key(x.msgs[0]);
					w += " task" + std::to_string(c.first) + "#" + std::to_string(c.second) + ":" + o->op->gets("fn") + (*o->op)["s"].dump() + (*o->op)["i"].dump() + "->" + pc::msg_key(x.msgs[0]);
				}
				row.push_back(same);
			}
			match.push_back(row); msgs.push_back(m); want_at.push_back(w);
		};
		ingest(e);
		on_wire = nullptr;
		std::vector<int> tasks; for (auto &kv : by_task) tasks.push_back(kv.first);
		std::map<int, std::vector<size_t>> cmd_of;                 // task -> indices into cmds, program order
		for (size_t k = 0; k < cmds.size(); k++) cmd_of[cmds[k].first].push_back(k);
		size_t deepest = 0;
		std::set<std::vector<size_t>> dead;
		std::function<bool(size_t, std::vector<size_t> &)> dfs = [&](size_t i, std::vector<size_t> &pos) -> bool {
			if (i > deepest) deepest = i;
			if (i == msgs.size()) return true;
			std::vector<size_t> key = pos; key.push_back(i);
			if (dead.count(key)) return false;
			for (size_t t = 0; t < tasks.size(); t++) {
				auto &lst = cmd_of[tasks[t]];
				if (pos[t] >= lst.size() || !match[i][lst[pos[t]]]) continue;
				pos[t]++;
				if (dfs(i + 1, pos)) return true;
				pos[t]--;
			}
			dead.insert(key);
			return false;
		};
		std::vector<size_t> pos(tasks.size(), 0);
		if (msgs.size() > cmds.size())
			e.violate("WRONG_MESSAGES", "concurrent train commands", std::to_string(cmds.size()) + " accepted concurrent commands put " + std::to_string(msgs.size()) + " messages on the wire");
		if (!dfs(0, pos)) {
			size_t i = std::min(deepest, msgs.size() - 1);
			e.violate("NOT_SERIALIZABLE", "concurrent train commands", "no serial order of the concurrent commands explains the downlink: message #" + std::to_string(i) + " " + pc::msg_key(msgs[i]) +
			          " is not what any still pending command produces on the state left by the messages before it (a command used function bits / direction that another command "
			          "had already changed: lost update). On that state the commands would send:" + want_at[i]);
		}
		if (msgs.size() < cmds.size())
			e.violate("WRONG_MESSAGES", "concurrent train commands", std::to_string(cmds.size()) + " accepted concurrent commands but only " + std::to_string(msgs.size()) + " messages reached the wire");
	}

	// Concurrent commands AND feedback for the same train. The receiver applies a report somewhere between its delivery and the moment it
	// is known processed; a command takes effect (reads the state, builds its message, updates the state - one critical section) somewhere
	// between its invocation and its return / the emission of its message. Search ONE total order of wire messages and uplink frames that
	// (a) keeps the wire order, the frame order and each task's program order, (b) puts X before Y whenever X was over before Y began,
	// (c) makes every wire message the expected message of its command on the state the order has produced so far, and (d) ends in the
	// state bidib_get_state reports. None exists = a lost update (or a torn one) between a command and the receiver.
	uint64_t fb_phases = 0, fb_ambiguous = 0, fb_budget_exhausted = 0, fb_nodes = 0; bool resync_trains = false;
	// (orientation: when the listings of a train disagree any reported one is acceptable)
	static std::string diff_state(J got, const sm::Model &m) {
		J want = m.to_json();
		for (auto &kv : m.tr) if (kv.second.possible_orient.size() > 1)
			for (J *side : {&got, &want}) { J &t = const_cast<J &>((*side)["trains"]); for (auto &x : t.o) if (x.first == kv.first) { J n = J::obj(); for (auto &f : x.second.o) if (f.first != "orient") n.set(f.first, f.second); x.second = n; } }
		return sm::diff(got, want);
	}
	void judge_concurrent_fb(Engine &e, int s, int p) {
		std::map<int, std::vector<OpRec *>> by_task;
		for (auto &o : e.oplog) if (o.session == s && o.phase == p && o.op->gets("op") == "hl") by_task[o.task].push_back(&o);
		conc_phases++; fb_phases++;
		for (auto &kv : by_task) for (auto *o : kv.second) {
			Exp x = expect(*o->op);
			if (x.ret >= 0 && (x.ret == 1) != (o->ret == 1))
				e.violate(x.ret == 0 ? "COMMAND_REFUSED" : "COMMAND_ACCEPTED", o->op->gets("fn"), "concurrent bidib_" + o->op->gets("fn") + (*o->op)["s"].dump() + (*o->op)["i"].dump() + " returned " + std::to_string(o->ret) + ", expected " + std::to_string(x.ret) + " (" + x.why + ")");
			if (o->ret == 1) refused++; else accepted++;
		}
		std::vector<int> tasks; std::map<int, std::vector<OpRec *>> acc;
		for (auto &kv : by_task) { tasks.push_back(kv.first); for (auto *o : kv.second) if (o->ret == 0) acc[kv.first].push_back(o); }
		size_t ncmds = 0; for (auto &kv : acc) ncmds += kv.second.size();
		std::vector<const bus::WireRec *> W; for (size_t i = wire_pos; i < e.bus.wire.size(); i++) W.push_back(&e.bus.wire[i]);
		std::vector<const bus::UpFrame *> F; size_t fend = frame_pos;
		for (size_t f = frame_pos; f < e.bus.done.size() && e.bus.done[f].processed; f++) { fend = f + 1; if (!e.bus.done[f].corrupted && !e.bus.done[f].msgs.empty()) F.push_back(&e.bus.done[f]); }
		conc_msgs += W.size();
		if (W.size() != ncmds) {
			e.violate("WRONG_MESSAGES", "concurrent train commands", std::to_string(ncmds) + " accepted concurrent commands put " + std::to_string(W.size()) + " messages on the wire");
			return;
		}
		J got = lib_state();
		sm::Model start = model, found;
		bool ok = false, ambiguous = false; size_t deepest = 0; std::string deepest_why;
		uint64_t nodes = 0; const uint64_t NODE_BUDGET = 30000;
		std::function<void(size_t, size_t, std::vector<size_t> &, uint64_t, const sm::Model &)> dfs = [&](size_t i, size_t f, std::vector<size_t> &pos, uint64_t max_inv, const sm::Model &cur) {
			if (ok || ++nodes > NODE_BUDGET) return;
			if (i == W.size() && f == F.size()) {
				std::string d = diff_state(got, cur);
				if (d.empty()) { ok = true; found = cur; }
				else if (i + f >= deepest) { deepest = i + f + 1; deepest_why = "the order explains the downlink but ends in another state than bidib_get_state reports: " + d; }
				return;
			}
			int options = 0;
			// next: the frame
			if (f < F.size() && max_inv < F[f]->processed_step && (i == W.size() || F[f]->last_read_step < W[i]->step)) {
				options++;
				sm::Model nx = cur; for (auto &m : F[f]->msgs) nx.apply_uplink(m);
				dfs(i, f + 1, pos, max_inv, nx);
				if (ok) return;
			}
			// next: the wire message, as the next command of some task
			if (i < W.size()) {
				for (size_t t = 0; t < tasks.size() && !ok; t++) {
					auto &lst = acc[tasks[t]];
					if (pos[t] >= lst.size()) continue;
					OpRec *o = lst[pos[t]];
					if (f > 0 && !(F[f - 1]->last_read_step < std::min(W[i]->step, o->ret_step))) continue;     // a frame placed before it was delivered only after the command was over
					if (f < F.size() && !(o->inv_step < F[f]->processed_step)) continue;                        // a frame placed after it was over before the command began
					sm::Model keep = model; model = cur; Exp x = expect(*o->op); model = keep;
					bool same = false;
					const ref::Msg &m = W[i]->msg;
					if (x.ret == 0 && x.msgs.size() == 1) {
						if (x.estop && m.type == MSG_CS_DRIVE && m.data.size() == 9) { auto a = m.data, b = x.msgs[0].data; a[4] &= 0x7F; b[4] &= 0x7F; same = a == b && m.addr == x.msgs[0].addr; }
						else same = pc::msg_key(m) == pc::msg_key(x.msgs[0]);
					}
					if (!same) { if (i + f >= deepest) { deepest = i + f + 1; deepest_why = "message #" + std::to_string(i) + " " + pc::msg_key(m) + " is not what " + o->op->gets("fn") + (*o->op)["s"].dump() + (*o->op)["i"].dump() + " sends on the state reached (" + (x.msgs.empty() ? std::string("-") : pc::msg_key(x.msgs[0])) + ")"; } continue; }
					options++;
					sm::Model nx = cur; nx.apply_downlink(m);
					pos[t]++;
					dfs(i + 1, f, pos, std::max(max_inv, o->inv_step), nx);
					pos[t]--;
				}
			}
			if (options > 1) ambiguous = true;
		};
		std::vector<size_t> pos(tasks.size(), 0);
		dfs(0, 0, pos, 0, start);
		fb_nodes += nodes;
		if (ambiguous) fb_ambiguous++;
		// search budget exhausted (many commands): not judged (counted). The plain fold by observed order is only one of the admissible orders, so
		// the state comparison of this phase is skipped too and the model takes over what the library reports for the trains
		if (!ok && nodes > NODE_BUDGET) { fb_budget_exhausted++; resync_trains = true; return; }
		if (!ok) {
			std::string d = "no single order of the " + std::to_string(ncmds) + " concurrent commands and the " + std::to_string(F.size()) + " uplink frames of the phase (manual drive reports, acknowledgements) that respects what was over before what explains both the downlink and the final state; deepest attempt: " + deepest_why;
			e.violate("NOT_SERIALIZABLE", "concurrent train commands and drive reports", d);
			return;
		}
		for (auto *fr : F) for (auto &m : fr->msgs) if (m.type == MSG_CS_DRIVE_MANUAL && m.data.size() >= 9) { const cfg::Train *t = model.train_by_addr(m.data[0], m.data[1]); if (t) manual_trains.insert(t->id); }
		model = found; wire_pos = e.bus.wire.size(); frame_pos = fend;
	}

	void at_quiescence(Engine &e, int s, int p) override {
		if (armed && e.plan["sessions"][(size_t) s]["phases"][(size_t) p].getb("conc_fb")) judge_concurrent_fb(e, s, p);
		else if (armed && e.plan["sessions"][(size_t) s]["phases"][(size_t) p].getb("conc")) judge_concurrent(e, s, p);
		ingest(e);
		if (resync_trains) {
			resync_trains = false;
			J st = lib_state();
			for (auto &kv : model.tr) if (st["trains"].has(kv.first)) {
				const J &t = st["trains"][kv.first];
				kv.second.speed = (int) t.geti("speed"); kv.second.fwd = t.getb("fwd"); kv.second.ack = (int) t.geti("ack");
				for (size_t q = 0; q < t["periph"].size(); q++) kv.second.periph[t["periph"][q][0].str()] = (int) t["periph"][q][1].num();
			}
			return;
		}
		if (!e.plan["sessions"][(size_t) s]["phases"][(size_t) p].getb("check")) return;
		J got = lib_state();
		J want = model.to_json();
		for (auto &kv : model.tr) if (kv.second.possible_orient.size() > 1)
			for (J *side : {&got, &want}) { J &t = const_cast<J &>((*side)["trains"]); for (auto &x : t.o) if (x.first == kv.first) { J n = J::obj(); for (auto &f : x.second.o) if (f.first != "orient") n.set(f.first, f.second); x.second = n; } }
		state_checks++;
		std::string d = sm::diff(got, want);
		if (!d.empty()) {
			// was the last command a refused one? then the state must simply be unchanged
			bool last_refused = !e.oplog.empty() && e.oplog.back().op->gets("op") == "hl" && e.oplog.back().ret == 1 && e.oplog.back().phase == p;
			e.violate(last_refused ? "STATE_CHANGED_ON_REFUSAL" : "OPTIMISTIC_STATE", d.substr(0, d.find(':')), std::string("tracked state after the command differs from the prediction at ") + d + " (library vs model)");
		}
	}

	void coverage(Engine &e, J &f) override {
		f.set("nontrivial", (relogin_cmds > 0 || manual_bits_used > 0) && refused > 0);
		f.set("shape", (long long) (pc::shape_hash(e.plan) >> 1));
		J p = J::obj(); p.set("commands_accepted", (long long) accepted); p.set("commands_refused", (long long) refused); p.set("commands_to_relogged_board", (long long) relogin_cmds);
		p.set("function_commands_after_manual_report", (long long) manual_bits_used); p.set("state_comparisons", (long long) state_checks); p.set("commands_held_back_by_the_response_budget", (long long) held_by_budget);
		p.set("concurrent_command_phases", (long long) conc_phases); p.set("concurrent_phases_with_overlapping_calls", (long long) conc_overlaps); p.set("concurrent_messages_matched", (long long) conc_msgs);
		p.set("concurrent_phases_with_drive_reports", (long long) fb_phases); p.set("concurrent_phases_with_drive_reports_more_than_one_order_possible", (long long) fb_ambiguous); if (fb_budget_exhausted) p.set("serial_order_search_budget_exhausted", (long long) fb_budget_exhausted); p.set("serial_order_search_nodes", (long long) fb_nodes);
		f.set("probes", p);
	}
};

}  // namespace

Prop *make_c09() { return new C09(); }
Prop *make_c09_conc() { C09 *p = new C09(); p->conc_heavy = true; return p; }

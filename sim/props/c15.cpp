// C15 — node table: correct address/connectivity at startup and on node new/lost.
#include "common.h"
#include "cfggen.h"
#include "apiops.h"

namespace {

struct BState { bool connected = false; std::vector<uint8_t> addr; };

struct C15 : Prop {
	const char *id() const override { return "C15"; }
	std::string rule() const override {
		return "plan = generated worlds up to three address levels (nested interfaces, unknown unique-ids, configured-but-absent boards); optional node-table change of an "
		       "unconfigured node in the middle of the start-up enumeration (the interface then answers GETNEXT with NODETAB_COUNT: restart), or an unconfigured hub with configured "
		       "boards beneath it logging in while another sub-interface's table is read (announced by MSG_NODE_NEW only); afterwards 1-10 node-lost / "
		       "node-new notices (leaf boards, interfaces with children, re-login at another address, unknown ids, absent boards logging in, repeated notices), each followed by commands "
		       "to every board. Oracle: connectivity model (connected(b), address = announcing interface's address extended by the local address, lost interface "
		       "disconnects everything beneath it) compared with bidib_get_boards_connected / bidib_get_board_connected / bidib_get_nodeaddr after every notice; "
		       "exactly one NODE_CHANGED_ACK with the announced version to the announcing node on the wire when the notice is known processed (no flush by the harness); "
		       "bidib_ping returns 0 and addresses the model's current address iff the board is connected, else 1 and nothing is sent. "
		       "non-trivial = >=1 interface with children lost or >=1 re-login at another address; distinct = (shape, trace).";
	}
	// two sessions in one process: a slow-booting leaf board logs in after each start-up; the interface's table version starts over with every
	// reset, so the login notice of session 2 is byte for byte the notice of session 1 - it must connect the board all the same
	J generate_two_sessions(Rng &r) {
		J plan = J::obj();
		cfg::GenOpts o; o.max_boards = 4; o.max_trains = 1; o.allow_absent = false; o.allow_unknown = true; o.want_features = false; o.want_initial = false;
		cfg::World w = cfg::gen_world(r, o);
		std::vector<const cfg::Board *> lf; for (auto &b : w.boards) if (b.present && b.addr.size() == 1 && !b.is_iface()) lf.push_back(&b);
		if (lf.empty()) return J();
		const cfg::Board *x = lf[r.below(lf.size())];
		cfg::install(plan, w, r);
		{ J bus = plan["bus"]; J ns = bus["nodes"]; J ns2 = J::arr(); for (size_t i = 0; i < ns.size(); i++) { J n = ns[i]; if (j_bytes(n["addr"]) == x->addr) n.set("present", false); ns2.push(n); } bus.set("nodes", ns2); plan.set("bus", bus); }
		J ss = J::arr();
		for (int k = 0; k < 2; k++) {
			J se = cfg::normal_session(0, r.coin() ? 0 : (int) r.range(5, 40));
			if (k == 1) { J sev = J::arr(); J e0 = J::obj(); e0.set("at_us", 1000); e0.set("topo", "lost"); e0.set("node", pc::jaddr(x->addr)); sev.push(e0); se.set("start_bus", sev); }   // (it is switched off again while the host restarts)
			J phs = J::arr();
			{ J ph = J::obj(); ph.set("check", true); J post = J::arr(); post.push("quiesce"); ph.set("post", post); phs.push(ph); }
			{ J ph = J::obj(); J ev = J::arr(); J e = J::obj(); e.set("at_us", (int) r.range(0, 3000)); e.set("topo", "new"); e.set("node", pc::jaddr(x->addr)); ev.push(e); ph.set("bus", ev); ph.set("check", true); J post = J::arr(); post.push("quiesce_noflush"); ph.set("post", post); phs.push(ph); }
			{ J cp = J::obj(); J cpre = J::arr(); for (auto &b : w.boards) { J o2 = J::obj(); o2.set("op", "hl"); o2.set("fn", "ping"); J sa = J::arr(); sa.push(b.id); o2.set("s", sa); o2.set("i", pc::jarr({(int) r.byte()})); cpre.push(o2); } cp.set("pre", cpre); cp.set("commands", true); J post2 = J::arr(); post2.push("quiesce"); cp.set("post", post2); phs.push(cp); }
			se.set("phases", phs); ss.push(se);
		}
		plan.set("sessions", ss); plan.set("two_sessions", true);
		J sc = sched_json(r, "quick", 1, true);
		if (sc.geti("policy") == sim::P_STARVE) sc.set("policy", (int) sim::P_RANDOM);
		plan.set("sched", sc);
		return plan;
	}
	J generate(Rng &r, const std::string &tier, uint64_t) override {
		bool thorough = tier == "thorough";
		if (r.chance(80)) { J tp = generate_two_sessions(r); if (tp.is_obj()) return tp; }
		J plan = J::obj();
		cfg::GenOpts o; o.max_boards = thorough ? 6 : 4; o.max_trains = 1; o.allow_absent = true; o.allow_unknown = true; o.want_features = r.chance(300); o.want_initial = false;
		cfg::World w = cfg::gen_world(r, o);
		// sub-workload: an UNCONFIGURED hub with configured boards beneath it logs in while the host reads the table of another
		// sub-interface (the root's own read-out is complete, so the interface does not restart it: only MSG_NODE_NEW announces the change).
		// The login is triggered by the protocol event (MSG_NODETAB_GETALL to the other sub-interface), not by a time: the notice is
		// therefore processed strictly inside the enumeration, which has to be restarted and must find the boards beneath the hub.
		std::vector<uint8_t> hub_addr, trig_addr;
		if (r.chance(220)) {
			std::vector<size_t> cands;
			for (size_t i = 0; i < w.boards.size(); i++) {
				const cfg::Board &b = w.boards[i];
				if (!b.present || b.addr.size() != 1 || !b.is_iface()) continue;
				bool child = false; for (auto &c : w.boards) if (c.present && c.addr.size() > 1 && c.addr[0] == b.addr[0]) child = true;
				if (child) cands.push_back(i);
			}
			if (!cands.empty()) {
				size_t k = cands[r.below(cands.size())];
				cfg::Unknown u; u.addr = w.boards[k].addr; memcpy(u.uid, w.boards[k].uid, 7);
				hub_addr = u.addr;
				w.boards.erase(w.boards.begin() + (long) k);
				w.unknown.push_back(u);
				// another interface directly below the root whose table is read after the root's
				for (auto &b : w.boards) if (b.present && b.addr.size() == 1 && b.is_iface()) trig_addr = b.addr;
				for (auto &x : w.unknown) if (trig_addr.empty() && x.addr.size() == 1 && (x.uid[0] & 0x80) && x.addr != hub_addr) trig_addr = x.addr;
				if (trig_addr.empty()) {
					cfg::Unknown a; uint8_t la = 200; bool used = true;
					while (used) { la++; used = false; for (auto &b : w.boards) if (b.addr.size() == 1 && b.addr[0] == la) used = true; for (auto &x : w.unknown) if (x.addr.size() == 1 && x.addr[0] == la) used = true; }
					a.addr = {la}; uint8_t au[7] = {0x80 | 0x01, 0x00, 0x0D, 0x77, r.byte(), r.byte(), 0x5A}; memcpy(a.uid, au, 7);
					w.unknown.push_back(a); trig_addr = a.addr;
				}
			}
		}
		cfg::install(plan, w, r);
		if (!hub_addr.empty()) {
			J bus = plan["bus"]; J ns = bus["nodes"]; J ns2 = J::arr();
			for (size_t i = 0; i < ns.size(); i++) { J n = ns[i]; if (j_bytes(n["addr"]) == hub_addr) n.set("present", false); ns2.push(n); }
			bus.set("nodes", ns2); plan.set("bus", bus);
			J hl = J::obj(); hl.set("hub", pc::jaddr(hub_addr)); hl.set("on_getall_of", pc::jaddr(trig_addr)); plan.set("hub_login_during_enum", hl);
		}
		// a slow interface: from the n-th node table row on every row is 2.1-3.5 s late (the enumeration has to wait for it)
		if (r.chance(120)) { J bus = plan["bus"]; J td = J::arr(); J e = J::arr(); e.push((int) MSG_NODETAB); e.push((int) r.range(1, 5)); e.push((int) r.range(2100, 3500)); td.push(e); bus.set("type_delays", td); plan.set("bus", bus); }
		// one run in five: some writes to the line take 20-80 ms (an acknowledgement that is slow to leave while the enumeration polls on)
		if (r.chance(200)) { J bus = plan["bus"]; J sw = J::arr(); for (int i = 0, n = (int) r.range(3, 8); i < n; i++) { J e = J::arr(); e.push((int) r.range(8, 40)); e.push((int) r.range(20000, 80000)); sw.push(e); } bus.set("slow_writes", sw); plan.set("bus", bus); }
		J se = cfg::normal_session(0, r.coin() ? 0 : (int) r.range(5, 40));
		// table change during the enumeration: only nodes that are not configured (a configured board that vanishes is the subject of a separate,
		// counted sub-workload below because the start-up dialogue has no timeouts for its answers)
		if (hub_addr.empty() && r.chance(400) && !w.unknown.empty()) {
			std::vector<const cfg::Unknown *> leafs; for (auto &u : w.unknown) if (!u.addr.empty() && !(u.uid[0] & 0x80)) leafs.push_back(&u);
			if (!leafs.empty()) {
				const cfg::Unknown *u = leafs[r.below(leafs.size())];
				J sev = J::arr(); int t0 = (int) r.range(2240000, 2500000);
				J e1 = J::obj(); e1.set("at_us", t0); e1.set("topo", "lost"); e1.set("node", pc::jaddr(u->addr)); sev.push(e1);
				if (r.chance(700)) { J e2 = J::obj(); e2.set("at_us", t0 + (int) r.range(500, 150000)); e2.set("topo", "new"); e2.set("node", pc::jaddr(u->addr)); sev.push(e2); }
				se.set("start_bus", sev);
			}
		}
		// sub-workload: a configured leaf board (without features, so that the start-up dialogue never waits for it) is lost around the enumeration
		if (hub_addr.empty() && !se.has("start_bus") && r.chance(250)) {
			std::vector<const cfg::Board *> leafs; for (auto &b : w.boards) if (b.present && !b.addr.empty() && !b.is_iface() && b.features.empty()) leafs.push_back(&b);
			if (!leafs.empty()) {
				J sev = J::arr(); J e1 = J::obj(); e1.set("at_us", (int) r.range(2240000, 2600000)); e1.set("topo", "lost"); e1.set("node", pc::jaddr(leafs[r.below(leafs.size())]->addr)); sev.push(e1);
				se.set("start_bus", sev); plan.set("configured_lost_during_start", true);
			}
		}
		J phs = J::arr();
		{ J ph = J::obj(); ph.set("check", true); J post = J::arr(); post.push("quiesce"); ph.set("post", post); phs.push(ph); }
		// bus-side view of where nodes are, to generate sensible events
		struct N { std::vector<uint8_t> addr; bool present; bool iface; bool configured; };
		std::vector<N> ns;
		for (auto &b : w.boards) ns.push_back({b.addr, b.present, b.is_iface(), true});
		for (auto &u : w.unknown) ns.push_back({u.addr, true, (u.uid[0] & 0x80) != 0, false});
		int nev = (int) r.range(1, thorough ? 10 : 6);
		for (int i = 0; i < nev; i++) {
			J ph = J::obj(); J ev = J::arr();
			size_t k = r.below(ns.size());
			if (ns[k].addr.empty()) { continue; }
			// (a node beneath an interface that is not on the bus can neither leave nor log in)
			{ bool parent_gone = false; for (auto &y : ns) if (y.iface && !y.present && !y.addr.empty() && y.addr.size() < ns[k].addr.size() && std::equal(y.addr.begin(), y.addr.end(), ns[k].addr.begin())) parent_gone = true; if (parent_gone) continue; }
			J e = J::obj(); e.set("at_us", (int) r.range(0, 3000)); e.set("node", pc::jaddr(ns[k].addr));
			bool lost_notice_lost = false;
			if (ns[k].present) {
				e.set("topo", "lost"); ns[k].present = false;
				// everything beneath a lost interface is gone with it and has to log in again, one by one, once the interface is back
				if (ns[k].iface) for (auto &y : ns) if (y.addr.size() > ns[k].addr.size() && std::equal(ns[k].addr.begin(), ns[k].addr.end(), y.addr.begin())) y.present = false;
				// the MSG_NODE_LOST itself is lost on the bus (CRC error): the host still believes the board connected when it logs in again, possibly elsewhere
				if (r.chance(150)) { J fs = J::arr(); J f = J::obj(); f.set("kind", "lose"); fs.push(f); e.set("faults", fs); lost_notice_lost = true; }
			}
			else {
				e.set("topo", "new");
				if (r.chance(400)) {
					// re-login at another address (leafs only): below a present interface, unused local address
					bool leaf = true; for (auto &x : ns) if (x.addr.size() == ns[k].addr.size() + 1 && std::equal(ns[k].addr.begin(), ns[k].addr.end(), x.addr.begin())) leaf = false;
					std::vector<size_t> ifs; for (size_t q = 0; q < ns.size(); q++) if (ns[q].iface && ns[q].present && ns[q].addr.size() < 3 && q != k) ifs.push_back(q);
					if (leaf && !ifs.empty()) {
						std::vector<uint8_t> na = ns[ifs[r.below(ifs.size())]].addr; na.push_back((uint8_t) r.range(10, 60));
						bool used = false; for (auto &x : ns) if (x.addr == na) used = true;
						if (!used) { e.set("as", pc::jaddr(na)); ns[k].addr = na; }
					}
				}
				ns[k].present = true;
				// the login notice of an interface is destroyed on the bus (CRC error): the host keeps it as lost while the nodes beneath it announce themselves
				if (ns[k].iface && !e.has("as") && r.chance(200)) { J fs = J::arr(); J f = J::obj(); f.set("kind", "lose"); fs.push(f); e.set("faults", fs); lost_notice_lost = true; }
			}
			// the interface repeats a notice whose acknowledgement it missed (same or next sequence number): must change nothing
			if (!lost_notice_lost && r.chance(250)) { J fs = J::arr(); J f = J::obj(); f.set("kind", "dup"); f.set("a", (int) r.below(2)); fs.push(f); e.set("faults", fs); }
			ev.push(e);
			ph.set("bus", ev); ph.set("check", true);
			// commands to every board afterwards
			J pre = J::arr();
			ph.set("pre", pre);
			J post = J::arr(); post.push("quiesce_noflush"); ph.set("post", post);
			phs.push(ph);
			J cp = J::obj(); J cpre = J::arr();
			for (auto &b : w.boards) { J o2 = J::obj(); o2.set("op", "hl"); o2.set("fn", "ping"); J s = J::arr(); s.push(b.id); o2.set("s", s); o2.set("i", pc::jarr({(int) r.byte()})); cpre.push(o2); }
			cp.set("pre", cpre); cp.set("commands", true);
			J post2 = J::arr(); post2.push("quiesce"); cp.set("post", post2);
			phs.push(cp);
		}
		se.set("phases", phs);
		J ss = J::arr(); ss.push(se); plan.set("sessions", ss);
		J sc = sched_json(r, tier, 1, true);
		if (sc.geti("policy") == sim::P_STARVE) sc.set("policy", (int) sim::P_RANDOM);
		plan.set("sched", sc);
		return plan;
	}

	cfg::World world;
	std::map<std::string, BState> model;
	bool armed = false;
	uint64_t notices = 0, acks_checked = 0, iface_lost_with_children = 0, relogin_elsewhere = 0, getter_checks = 0, pings = 0, hub_logins = 0, pings_deferred = 0;
	bool hub_fired = false;

	const cfg::Board *by_uid(const uint8_t *u) { for (auto &b : world.boards) if (!memcmp(b.uid, u, 7)) return &b; return nullptr; }

	void attach(Engine &e) override {
		world = cfg::from_json(e.plan["world"]);
		model.clear(); armed = false; notices = acks_checked = iface_lost_with_children = relogin_elsewhere = getter_checks = pings = 0;
		for (auto &b : world.boards) model[b.id] = BState();
		hub_fired = false; hub_logins = 0; pings_deferred = 0;
		e.bus.on_request = nullptr;
		if (e.plan.has("hub_login_during_enum")) {
			std::vector<uint8_t> hub = j_bytes(e.plan["hub_login_during_enum"]["hub"]), trig = j_bytes(e.plan["hub_login_during_enum"]["on_getall_of"]);
			e.bus.on_request = [this, &e, hub, trig](bus::Node &n, const ref::Msg &m) {
				if (!hub_fired && m.type == MSG_NODETAB_GETALL && n.addr == trig) {
					hub_fired = true; hub_logins++;
					J ev = J::obj(); ev.set("topo", "new"); ev.set("node", pc::jaddr(hub));
					e.topo_event(ev);
				}
				return false;
			};
		}
		e.bus.on_processed = [this, &e](bus::UpFrame &f) {
			if (f.corrupted) return;
			for (auto &m : f.msgs) {
				if ((m.type != MSG_NODE_NEW && m.type != MSG_NODE_LOST) || m.data.size() < 9) continue;
				notices++;
				const cfg::Board *b = by_uid(&m.data[2]);
				if (b) {
					BState &st = model[b->id];
					if (m.type == MSG_NODE_NEW) {
						std::vector<uint8_t> na = m.addr; na.push_back(m.data[1]);
						if (st.connected == false && !st.addr.empty() && st.addr != na) relogin_elsewhere++;
						st.connected = true; st.addr = na;
					} else {
						st.connected = false;
						if (b->is_iface()) {
							bool any = false;
							for (auto &kv : model) {
								if (kv.first == b->id) continue;
								const auto &a = kv.second.addr;
								if (a.size() > st.addr.size() && std::equal(st.addr.begin(), st.addr.end(), a.begin())) { if (kv.second.connected) any = true; kv.second.connected = false; }
							}
							if (any) iface_lost_with_children++;
						}
					}
				}
				if (!armed) continue;
				// acknowledgement: exactly one NODE_CHANGED_ACK [version] to the announcing node after the notice was delivered, already on the wire
				int cnt = 0;
				for (auto &w : e.bus.wire) if (w.step >= f.last_read_step && w.msg.type == MSG_NODE_CHANGED_ACK && w.msg.addr == m.addr && w.msg.data.size() == 1 && w.msg.data[0] == m.data[0]) cnt++;
				acks_checked++;
				if (cnt != 1)
					e.violate(cnt == 0 ? "ACK_MISSING" : "ACK_DUPLICATED", m.type == MSG_NODE_NEW ? "MSG_NODE_NEW" : "MSG_NODE_LOST",
					          std::to_string(cnt) + " MSG_NODE_CHANGED_ACK with version " + std::to_string(m.data[0]) + " to node " + m.addr_str() + " on the wire when the notice is known processed (no flush by the application)");
			}
		};
	}

	void on_session_start(Engine &e, int, int ret) override {
		(void) e;
		if (ret != 0) return;
		// expected connectivity after start-up: what the node tree looks like now (the enumeration restarts on changes, so the final table is what counts)
		for (auto &b : world.boards) {
			BState st;
			int idx = e.bus.find_uid(b.uid);
			if (idx >= 0 && e.bus.nodes[(size_t) idx].present && e.bus.subtree_present(idx)) { st.connected = true; st.addr = e.bus.nodes[(size_t) idx].addr; }
			else { st.connected = false; }
			// notices processed during start-up already updated the model for configured boards; the tree is authoritative at this point
			model[b.id] = st;
		}
		armed = true;
	}
	void before_stop(Engine &, int) override { armed = false; }

	void check_getters(Engine &e, const char *when) {
		std::set<std::string> want;
		for (auto &kv : model) if (kv.second.connected) want.insert(kv.first);
		J conn; { sim::ApiScope api("bidib_get_boards_connected"); conn = getters::call("boards_connected", {}, J::arr()); }
		std::set<std::string> got; for (size_t i = 0; i < conn.size(); i++) got.insert(conn[i].str());
		getter_checks++;
		if (got != want) {
			std::string d = std::string(when) + ": bidib_get_boards_connected reports {"; for (auto &x : got) d += x + " "; d += "} but the node tree / notices imply {"; for (auto &x : want) d += x + " "; d += "}";
			e.violate("CONNECTIVITY", "boards_connected", d);
		}
		for (auto &kv : model) {
			J a; { sim::ApiScope api("bidib_get_nodeaddr"); a = getters::call("nodeaddr", {kv.first}, J::arr()); }
			J c; { sim::ApiScope api("bidib_get_board_connected"); c = getters::call("board_connected", {kv.first}, J::arr()); }
			if (c.getb("v") != kv.second.connected) e.violate("CONNECTIVITY", "board_connected " + kv.first, std::string(when) + ": bidib_get_board_connected(" + kv.first + ") = " + (c.getb("v") ? "true" : "false") + ", expected " + (kv.second.connected ? "true" : "false"));
			if (a.getb("known") != kv.second.connected) e.violate("CONNECTIVITY", "nodeaddr " + kv.first, std::string(when) + ": bidib_get_nodeaddr(" + kv.first + ").known_and_connected = " + (a.getb("known") ? "true" : "false"));
			if (kv.second.connected) {
				std::vector<uint8_t> ga = j_bytes(a["addr"]); while (!ga.empty() && ga.back() == 0) ga.pop_back();
				if (ga != kv.second.addr) e.violate("ADDRESS", "nodeaddr " + kv.first, std::string(when) + ": board " + kv.first + " reported at " + hex_of(ga) + " but its path of local addresses is " + hex_of(kv.second.addr));
			}
		}
	}

	void after_op(Engine &e, OpRec &o) override {
		if (o.op->gets("op") != "hl" || o.op->gets("fn") != "ping") return;
		std::string bid = (*o.op)["s"][0].str();
		const BState &st = model[bid];
		pings++;
		std::vector<ref::Msg> sent; for (size_t i = o.wire_before; i < e.bus.wire.size(); i++) if (e.bus.wire[i].msg.type == MSG_SYS_PING) sent.push_back(e.bus.wire[i].msg);
		{ sim::ApiScope api("bidib_flush"); bidib_flush(); }
		sent.clear(); for (size_t i = o.wire_before; i < e.bus.wire.size(); i++) if (e.bus.wire[i].msg.type == MSG_SYS_PING) sent.push_back(e.bus.wire[i].msg);
		if (st.connected) {
			if (o.ret != 0) e.violate("COMMAND_REFUSED", "bidib_ping " + bid, "board is connected at " + hex_of(st.addr) + " but bidib_ping returned " + std::to_string(o.ret));
			// a board beneath a lost hub the configuration does not know stays 'connected' but answers nothing: after nine unanswered pings
			// (9 x 5 bytes of the 48-byte response budget) the next one is rightly held back
			size_t pings_out = 0, pongs = 0;
			for (size_t i = 0; i < o.wire_before; i++) if (e.bus.wire[i].msg.type == MSG_SYS_PING && e.bus.wire[i].msg.addr == st.addr) pings_out++;
			for (auto &f : e.bus.done) if (!f.corrupted) for (auto &m : f.msgs) if (m.type == MSG_SYS_PONG && m.addr == st.addr) pongs++;
			if (sent.empty() && pings_out >= pongs + 9) { pings_deferred++; return; }
			if (sent.size() != 1 || sent[0].addr != st.addr) e.violate("COMMAND_ADDRESS", "bidib_ping " + bid, "ping for a board connected at " + hex_of(st.addr) + " put " + std::to_string(sent.size()) + " message(s) on the wire" + (sent.empty() ? std::string() : " addressed to " + sent[0].addr_str()));
		} else {
			if (o.ret != 1 || !sent.empty()) e.violate("COMMAND_TO_DISCONNECTED", "bidib_ping " + bid, "board is not connected but bidib_ping returned " + std::to_string(o.ret) + " and sent " + std::to_string(sent.size()) + " message(s)");
		}
	}

	void at_quiescence(Engine &e, int s, int p) override {
		const J &ph = e.plan["sessions"][(size_t) s]["phases"][(size_t) p];
		if (ph.getb("check")) check_getters(e, p == 0 ? "after start-up" : "after a node new/lost notice");
	}

	void coverage(Engine &e, J &f) override {
		f.set("nontrivial", iface_lost_with_children > 0 || relogin_elsewhere > 0);
		f.set("shape", (long long) (pc::shape_hash(e.plan) >> 1));
		J p = J::obj(); p.set("notices", (long long) notices); p.set("acks_checked", (long long) acks_checked); p.set("interface_lost_with_connected_children", (long long) iface_lost_with_children);
		p.set("relogin_at_other_address", (long long) relogin_elsewhere); p.set("getter_checks", (long long) getter_checks); p.set("pings_checked", (long long) pings);
		p.set("nodetab_restarts", (long long) (e.bus.fired.count("nodetab-restart") ? e.bus.fired["nodetab-restart"] : 0));
		p.set("unconfigured_hub_logins_during_enumeration", (long long) hub_logins); p.set("pings_held_back_by_the_response_budget", (long long) pings_deferred);
		f.set("probes", p);
	}
};

}  // namespace

Prop *make_c15() { return new C15(); }

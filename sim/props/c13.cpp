// C13 — start with arbitrary configuration files terminates with 0 or 1, never crashes or hangs.
#include "common.h"
#include "cfggen.h"
#include "cfgmut.h"
#include "apiops.h"
#include <sstream>
#include <set>

namespace {

using cfgmut::mutate; using cfgmut::split_lines; using cfgmut::join_lines;

struct C13 : Prop {
	const char *id() const override { return "C13"; }
	std::string rule() const override {
		return "plan = [warm-up session with a valid generated configuration] + 1-3 starts with a configuration triple in which one or two files are mutated "
		       "(delete/duplicate/swap lines, duplicate items, rename keys, bad value formats, re-indentation, garbage, copied ids and addresses, scalar/sequence swaps, "
		       "truncation, document markers, raw noise) or hit by a file fault (missing file, truncation at byte k = torn write, EIO after k bytes) + a final start with the "
		       "valid configuration; boards log in and report while a start is going on, single feature confirmations are late and overtaken. The start runs the real threads against the simulated interface on simulated time and, on error, the whole bidib_stop path. Oracle: "
		       "returns 0/1 (no deadlock, self-deadlock, unbounded wait, sanitizer report); on 1 no lock held, all created threads joined, no virtual FILE left open, "
		       "library-attributed live heap back to the level after the warm-up session; the final valid start returns 0. non-trivial = >=1 mutated start returned 1; "
		       "distinct = (shape incl. config hash, trace hash).";
	}
	J generate(Rng &r, const std::string &tier, uint64_t) override {
		bool thorough = tier == "thorough";
		J plan = J::obj();
		cfg::GenOpts o; o.max_boards = thorough ? 4 : 3; o.max_trains = 3;
		cfg::World w = cfg::gen_world(r, o);
		// one run in eight: a board on the bus with 9-24 configured features (an accepted configuration of unusual size)
		if (r.chance(125)) {
			std::vector<cfg::Board *> pb; for (auto &b : w.boards) if (b.present) pb.push_back(&b);
			if (!pb.empty()) { cfg::Board *b = pb[r.below(pb.size())]; std::set<int> fu; for (auto &f : b->features) fu.insert(f.first); int want = (int) r.range(9, 24);
				while ((int) b->features.size() < want) { int num = (int) r.range(0, 120); if (fu.count(num)) continue; fu.insert(num); b->features.push_back({(uint8_t) num, r.byte()}); } }
		}
		cfg::install(plan, w, r);
		// the boards' feature confirmations do not always come back in the order of the requests: now and then one is late and overtaken
		if (r.chance(250)) { J bus = plan["bus"]; J td = J::arr(); for (int q = 0, n = (int) r.range(1, 3); q < n; q++) { J e = J::arr(); e.push((int) MSG_FEATURE); e.push((int) r.range(1, 14)); e.push((int) r.range(20, 400)); td.push(e); } bus.set("type_delay_once", td); plan.set("bus", bus); }
		J cfgs = plan["configs"];
		std::map<std::string, int> kinds;
		int nm = (int) r.range(1, 3);
		static const char *names[3] = {"board", "track", "train"};
		J mk = J::arr();
		for (int i = 0; i < nm; i++) {
			J c = cfgs[0];
			uint64_t x = r.below(100);
			if (x < 25) {
				const char *which = names[r.below(3)];
				std::string txt = c.gets(which);
				J ft = J::obj(); J f = J::obj();
				uint64_t y = r.below(3);
				f.set("kind", y == 0 ? "enoent" : y == 1 ? "truncate" : "eio"); f.set("at", (int) r.below(txt.size() + 1));
				ft.set(which, f); c.set("faults", ft); kinds[std::string("file-") + f.gets("kind")]++;
			} else if (x < 32) {
				const char *which = names[r.below(3)];
				std::string g; for (size_t q = 0, m = (size_t) r.range(0, 300); q < m; q++) g += (char) r.byte();
				c.set(which, g); kinds["raw-noise"]++;
			} else {
				int nf = r.chance(250) ? 2 : 1;
				for (int q = 0; q < nf; q++) { const char *which = names[r.below(100) < 60 ? 1 : (r.coin() ? 0 : 2)]; c.set(which, mutate(r, c.gets(which), kinds)); }
			}
			cfgs.push(c);
		}
		plan.set("configs", cfgs);
		for (auto &kv : kinds) { J e = J::arr(); e.push(kv.first); e.push(kv.second); mk.push(e); }
		plan.set("mutations", mk);
		J ss = J::arr();
		{ J se = cfg::normal_session(0, 0); se.set("kind", "warm"); ss.push(se); }
		for (int i = 0; i < nm; i++) {
			J se = cfg::normal_session(i + 1, r.chance(600) ? 0 : (int) r.range(1, 40));
			J st = se["start"]; J st2 = J::obj(); for (auto &kv : st.o) if (kv.first != "expect") st2.set(kv.first, kv.second);
			// one mutated start in six goes through bidib_start_serial against the simulated serial device (one in four of those: the device cannot be opened)
			if (r.chance(170)) { st2.set("mode", "serial"); if (r.chance(250)) st2.set("openable", false); }
			se.set("start", st2);
			se.set("kind", "mutated");
			// the bus does not know that the host is restarting: boards log in and report while the start (and, for a rejected configuration,
			// the shutdown that follows it) is going on
			// a leaf board re-logs in while the node table is read (the table keeps its size; the interface signals the change by a new NODETAB_COUNT)
			if (r.chance(150)) {
				std::vector<const cfg::Board *> lf; for (auto &b : w.boards) if (b.present && b.addr.size() == 1 && !b.is_iface() && b.features.empty()) lf.push_back(&b);
				if (!lf.empty()) {
					const cfg::Board *b = lf[r.below(lf.size())];
					J sev = J::arr(); int t0 = (int) r.range(2240000, 2500000);
					J e1 = J::obj(); e1.set("at_us", t0); e1.set("topo", "lost"); e1.set("node", pc::jaddr(b->addr)); sev.push(e1);
					J e2 = J::obj(); e2.set("at_us", t0 + (int) r.range(500, 30000)); e2.set("topo", "new"); e2.set("node", pc::jaddr(b->addr)); sev.push(e2);
					se.set("start_bus", sev);
					if (r.chance(700)) { J bus = plan["bus"]; bus.set("restart_count_real", true); plan.set("bus", bus); }
				}
			}
			else if (r.chance(500)) {
				std::vector<const cfg::Board *> bs; for (auto &b : w.boards) if (b.present && !b.addr.empty()) bs.push_back(&b);
				if (!bs.empty()) {
					const cfg::Board *b = bs[r.below(bs.size())];
					// (either from the very beginning - most of it then falls into the connection probe and is discarded - or right into the node-table read-out,
					// which begins about 2.2 s after the call)
					bool during_enum = r.coin();
					J sev = J::arr(); int t = during_enum ? (int) r.range(2150000, 2350000) : (int) r.range(0, 300000);
					std::vector<uint8_t> pa(b->addr.begin(), b->addr.end() - 1);
					J nn = J::obj(); nn.set("at_us", t); nn.set("node", pc::jaddr(pa)); nn.set("type", (int) MSG_NODE_NEW);
					J d = J::arr(); d.push((int) r.range(2, 200)); d.push((int) b->addr.back()); for (int q = 0; q < 7; q++) d.push((int) b->uid[q]); nn.set("data", d); sev.push(nn);
					cfg::World one; one.boards.push_back(*b); one.trains = w.trains;
					for (int q = 0, n = (int) r.range(2, 12); q < n; q++) { t += during_enum ? (int) r.range(1000, 40000) : (int) r.range(1000, 150000); sev.push(api::uplink_event(r, one, t)); }
					se.set("start_bus", sev);
				}
			}
			ss.push(se);
		}
		{
			J se = cfg::normal_session(0, 0); se.set("kind", "final");
			J ph = J::obj(); J pre = J::arr(); J g = J::obj(); g.set("op", "get"); g.set("fn", "boards"); pre.push(g); ph.set("pre", pre);
			J post = J::arr(); post.push("quiesce"); ph.set("post", post);
			J phs = J::arr(); phs.push(ph); se.set("phases", phs);
			ss.push(se);
		}
		plan.set("sessions", ss);
		J sc = sched_json(r, tier, 1, false);
		if (sc.geti("policy") == sim::P_STARVE) sc.set("policy", (int) sim::P_RANDOM);
		plan.set("sched", sc);
		return plan;
	}

	int64_t base_live = -1;
	uint64_t rejected = 0, accepted = 0, leak_checks = 0;
	size_t tev_begin = 0;
	cfg::World world;

	void attach(Engine &e) override { base_live = -1; rejected = accepted = leak_checks = 0; tev_begin = 0; world = cfg::from_json(e.plan["world"]); }

	void check_clean(Engine &e, int s, const char *when) {
		const auto &tev = sim::thread_events();
		std::map<int, int> created, joined;
		for (size_t i = tev_begin; i < tev.size(); i++) { if (tev[i].kind == 'c') created[tev[i].task]++; else if (tev[i].task >= 0) joined[tev[i].task]++; }
		tev_begin = tev.size();
		for (auto &kv : created) if (!joined.count(kv.first) || sim::task(kv.first)->st != sim::T_DONE)
			e.violate("THREAD_NOT_JOINED", sim::task(kv.first)->name, std::string(when) + " (session " + std::to_string(s) + "): library thread '" + sim::task(kv.first)->name + "' was not joined");
		if (sim::vfs_open_fds() != 0) e.violate("FILE_LEFT_OPEN", "configuration file", std::string(when) + ": " + std::to_string(sim::vfs_open_fds()) + " configuration FILE handle(s) were not closed");
		if (bidib_running) e.violate("STILL_RUNNING", "bidib_running", std::string(when) + ": the library still reports itself running");
	}

	void on_session_start(Engine &e, int s, int ret) override {
		const J &se = e.plan["sessions"][(size_t) s];
		std::string kind = se.gets("kind");
		if (ret != 0 && ret != 1) e.violate("START_RETURN", kind, "start returned " + std::to_string(ret));
		if (kind == "mutated") {
			if (ret == 1) {
				rejected++;
				check_clean(e, s, "after a start that returned 1");
				int64_t live = sim::lib_live_bytes();
				if (base_live >= 0 && sim::lib_total_allocs() > 0) {
					leak_checks++;
					if (live != base_live) {
						if (getenv("VERIF_LEAKDBG")) sim::dump_live_since(alloc_marker);
						e.violate("LEAK", "failed start", "after a start that returned 1 the library-attributed live heap is " + std::to_string(live) + " bytes, after the warm-up session it was " + std::to_string(base_live) + " (" + std::to_string(live - base_live) + " bytes not released)");
					}
				}
			} else accepted++;
		}
	}
	uint64_t alloc_marker = 0;
	void on_session_stop(Engine &e, int s) override {
		const J &se = e.plan["sessions"][(size_t) s];
		if (e.start_ret == 0) check_clean(e, s, "after stop");
		if (se.gets("kind") == "warm") base_live = sim::lib_live_bytes();
		alloc_marker = sim::lib_total_allocs();
	}
	void after_op(Engine &e, OpRec &o) override {
		if (o.op->gets("op") == "get" && o.op->gets("fn") == "boards") {
			if (o.result.size() != world.boards.size()) e.violate("RESTART_BROKEN", "bidib_get_boards", "after rejected configurations a start with the valid configuration reports " + std::to_string(o.result.size()) + " boards instead of " + std::to_string(world.boards.size()));
		}
	}
	void coverage(Engine &e, J &f) override {
		f.set("nontrivial", rejected > 0);
		uint64_t h = FNV_INIT;
		const J &c = e.plan["configs"];
		for (size_t i = 1; i < c.size(); i++) { std::string d = c[i].dump(); h = fnv1a(h, d.data(), d.size()); }
		f.set("shape", (long long) (h >> 1));
		J p = J::obj(); p.set("starts_rejected", (long long) rejected); p.set("mutated_but_accepted", (long long) accepted); p.set("leak_checks", (long long) leak_checks);
		const J &mk = e.plan["mutations"];
		for (size_t i = 0; i < mk.size(); i++) p.set("mut:" + mk[i][0].str(), mk[i][1].num());
		f.set("probes", p);
	}
};

}  // namespace

Prop *make_c13() { return new C13(); }

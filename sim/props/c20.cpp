// C20 — startup applies the configuration: features to the right boards, then initial values.
#include "common.h"
#include "cfggen.h"
#include "apiops.h"
#include "statemodel.h"

namespace {

struct C20 : Prop {
	const char *id() const override { return "C20"; }
	std::string rule() const override {
		return "plan = generated configurations (features and initial values on any subset of boards / accessories / peripherals / train functions) x node trees in which any "
		       "subset of the configured boards is present; nodes answer FEATURE_SET with the requested or a different value; delayed / chunked answers, slow nodes (every confirmation from the n-th on seconds late), single confirmations that are late and overtaken by the "
		       "ones behind them, a late GO confirmation, a board lost during the feature phase and spontaneous occupancy traffic during start-up; the dialogue is repeated through bidib_send_sys_reset. Oracle over the decoded downlink transcript of each start / reset: the multiset "
		       "of FEATURE_SET messages equals the configured features of the connected boards (right address, nothing else) and all precede the single SYS_ENABLE; then CS GO "
		       "to exactly the connected track outputs; then every configured initial point / signal / peripheral aspect of a connected board exactly once and every initial "
		       "train function once per connected track output, encoded as the corresponding high-level command would (function-group bits accumulate); nothing for boards "
		       "that are not connected. non-trivial = >=1 absent configured board with features or initial values and >=1 connected one; distinct = (shape, trace).";
	}
	J generate(Rng &r, const std::string &tier, uint64_t) override {
		bool thorough = tier == "thorough";
		J plan = J::obj();
		cfg::GenOpts o; o.max_boards = thorough ? 5 : 4; o.max_trains = 3; o.allow_absent = true; o.want_initial = true; o.want_features = true;
		cfg::World w = cfg::gen_world(r, o);
		for (auto &t : w.trains) for (auto &p : t.periphs) if (p.bit >= 5 && p.bit < 8) p.bit = (uint8_t) (p.bit + 8);
		for (auto &t : w.trains) { std::set<int> seen; for (auto it = t.periphs.begin(); it != t.periphs.end();) { if (seen.count(it->bit)) it = t.periphs.erase(it); else { seen.insert(it->bit); ++it; } } if (!t.calibration.empty() && t.periphs.empty()) t.calibration.clear(); }
		// one board with more features than fit into one response budget (8 FEATURE_SET = 48 bytes of answers): the rest is deferred
		// and released by the receiver while the start-up waits for the confirmations
		bool many = r.chance(250);
		if (many) {
			std::vector<cfg::Board *> pb; for (auto &b : w.boards) if (b.present) pb.push_back(&b);
			cfg::Board *b = pb[r.below(pb.size())];
			std::set<int> fu; for (auto &f : b->features) fu.insert(f.first);
			int want = (int) r.range(9, 14);
			while ((int) b->features.size() < want) { int num = (int) r.range(0, 120); if (fu.count(num)) continue; fu.insert(num); b->features.push_back({(uint8_t) num, r.byte()}); }
		}
		cfg::install(plan, w, r);
		// answer faults: delays / chunking only (a lost answer would leave the start-up waiting: it has no timeouts)
		{
			J bus = plan["bus"]; J af = J::arr();
			// a slow node: from the n-th feature confirmation on every one is 2.1-4.5 s late
			// the command station confirms GO late (1.2-3 s) - initial values must not depend on the confirmation
			if (r.chance(150)) { J td = bus.has("type_delays") ? bus["type_delays"] : J::arr(); J e = J::arr(); e.push((int) MSG_CS_STATE); e.push(1); e.push((int) r.range(1200, 3000)); td.push(e); bus.set("type_delays", td); }
			if (many && r.chance(600)) { J td = bus.has("type_delays") ? bus["type_delays"] : J::arr(); J e = J::arr(); e.push((int) MSG_FEATURE); e.push((int) r.range(1, 8)); e.push((int) r.range(2100, 4500)); td.push(e); bus.set("type_delays", td); }
			for (int i = 0, n = (int) r.below(5); i < n; i++) {
				bus::Fault f; if (r.coin()) { f.kind = "delay"; f.a = r.range(1, 120); } else { f.kind = "chunk"; f.a = r.range(0, 12); f.b = r.range(1, 40); }
				J e = J::arr(); e.push((int) r.range(1, 40)); e.push(bus::fault_json(f)); af.push(e);
			}
			// one feature confirmation is late and is overtaken by the confirmations that follow it
			if (r.chance(200)) { J td = J::arr(); J e = J::arr(); e.push((int) MSG_FEATURE); e.push((int) r.range(1, 10)); e.push((int) r.range(20, 400)); td.push(e); bus.set("type_delay_once", td); }
			bus.set("answer_faults", af); plan.set("bus", bus);
		}
		J se = cfg::normal_session(0, r.chance(600) ? 0 : (int) r.range(5, 40));
		// spontaneous occupancy traffic during the start-up dialogue
		if (r.chance(500)) {
			J sev = J::arr(); int t = (int) r.range(2300000, 2600000);
			for (int i = 0, n = (int) r.range(1, 6); i < n; i++) {
				J e;
				do { e = api::uplink_event(r, w, t); } while (e.geti("type") != MSG_BM_OCC && e.geti("type") != MSG_BM_FREE && e.geti("type") != MSG_BM_ADDRESS && e.geti("type") != MSG_BM_CURRENT);
				sev.push(e); t += (int) r.range(1000, 200000);
			}
			se.set("start_bus", sev);
		}
		// a later board (configuration order) leaves the bus while the start-up still waits for the feature confirmations of an earlier one:
		// triggered by the arrival of the earlier board's first FEATURE_SET at the bus, so that the notice is processed before the later board's turn
		{
			std::vector<size_t> withf; for (size_t i = 0; i < w.boards.size(); i++) if (w.boards[i].present && !w.boards[i].features.empty()) withf.push_back(i);
			if (withf.size() >= 2 && r.chance(300)) {
				size_t ia = withf[r.below(withf.size() - 1)];
				std::vector<size_t> later; for (size_t i : withf) if (i > ia && !w.boards[i].addr.empty() && w.boards[i].addr != w.boards[ia].addr) later.push_back(i);      // (leaf boards and interfaces with everything beneath them)
				// (not beneath the earlier board, and not its ancestor)
				std::vector<size_t> ok; for (size_t i : later) { const auto &a = w.boards[ia].addr, &b = w.boards[i].addr; bool anc = b.size() < a.size() && std::equal(b.begin(), b.end(), a.begin()); if (!anc) ok.push_back(i); }
				// (an interface only if everything beneath it also comes later in the configuration: what was set before the loss was set rightly)
				{ std::vector<size_t> ok2; for (size_t i : ok) { bool fine = true; if (w.boards[i].is_iface()) for (size_t q = 0; q < w.boards.size(); q++) { const auto &h = w.boards[i].addr, &c = w.boards[q].addr; if (c.size() > h.size() && std::equal(h.begin(), h.end(), c.begin()) && q <= ia) fine = false; } if (fine) ok2.push_back(i); } ok = ok2; }
				if (!ok.empty() && !(w.boards[ia].addr.empty() && false)) {
					size_t ib = ok[r.below(ok.size())];
					J tl = J::obj(); tl.set("on_feature_set_to", pc::jaddr(w.boards[ia].addr)); tl.set("lost", pc::jaddr(w.boards[ib].addr)); plan.set("lost_during_features", tl);
					// the earlier board confirms slowly (0.4-0.8 s): the notice is certainly processed while the start-up still waits for it
					// (a board that vanishes while its OWN confirmations are awaited is a different story: that wait has no time-out)
					J bus = plan["bus"]; J td = J::arr(); J e = J::arr(); e.push((int) MSG_FEATURE); e.push(1); e.push((int) r.range(400, 800)); td.push(e); bus.set("type_delays", td); plan.set("bus", bus);
				}
			}
		}
		// a configured leaf board directly beneath the interface leaves the bus after its node-table row has been read and before the read-out is
		// complete (triggered by a later MSG_NODETAB_GETNEXT): the read-out starts over and no longer lists the board - nothing may be commanded for it
		if (!plan.has("lost_during_features") && r.chance(150)) {
			std::vector<const cfg::Board *> xs; for (auto &b : w.boards) if (b.present && b.addr.size() == 1 && !b.is_iface()) xs.push_back(&b);
			if (!xs.empty()) { J tl = J::obj(); tl.set("lost", pc::jaddr(xs[r.below(xs.size())]->addr)); plan.set("lost_during_enumeration", tl); }
		}
		// an interface beneath the root, with configured boards beneath it, logs in while the table of ANOTHER sub-interface is read (the root's own
		// read-out is complete, only MSG_NODE_NEW announces it): the enumeration has to start over, the boards beneath the late interface get their
		// features and initial values like everybody else
		else if (!plan.has("lost_during_features") && r.chance(150)) {
			std::vector<const cfg::Board *> hubs;
			for (auto &b : w.boards) if (b.present && b.addr.size() == 1 && b.is_iface()) { bool child = false; for (auto &c : w.boards) if (c.present && c.addr.size() == 2 && c.addr[0] == b.addr[0]) child = true; if (child) hubs.push_back(&b); }
			if (!hubs.empty()) {
				const cfg::Board *h = hubs[r.below(hubs.size())];
				std::vector<uint8_t> trig;
				for (auto &b : w.boards) if (b.present && b.addr.size() == 1 && b.is_iface() && b.addr != h->addr) trig = b.addr;
				for (auto &x : w.unknown) if (trig.empty() && x.addr.size() == 1 && (x.uid[0] & 0x80)) trig = x.addr;
				if (!trig.empty()) {
					J bus = plan["bus"]; J ns = bus["nodes"]; J ns2 = J::arr();
					for (size_t i = 0; i < ns.size(); i++) { J n = ns[i]; if (j_bytes(n["addr"]) == h->addr) n.set("present", false); ns2.push(n); }
					bus.set("nodes", ns2); plan.set("bus", bus);
					J hl = J::obj(); hl.set("hub", pc::jaddr(h->addr)); hl.set("on_getall_of", pc::jaddr(trig)); plan.set("hub_login_during_enum", hl);
				}
			}
		}
		J phs = J::arr();
		{ J ph = J::obj(); ph.set("check", true); J post = J::arr(); post.push("quiesce"); ph.set("post", post); phs.push(ph); }
		if (r.chance(400)) {
			J ph = J::obj(); J pre = J::arr(); J ro = J::obj(); ro.set("op", "reset"); pre.push(ro); ph.set("pre", pre); ph.set("check", true);
			J post = J::arr(); post.push("quiesce"); ph.set("post", post); phs.push(ph);
		}
		se.set("phases", phs);
		J ss = J::arr(); ss.push(se); plan.set("sessions", ss);
		J sc = sched_json(r, tier, 1, true);
		if (sc.geti("policy") == sim::P_STARVE) sc.set("policy", (int) sim::P_RANDOM);
		plan.set("sched", sc);
		return plan;
	}

	cfg::World world;
	size_t checked_from = 0;
	uint64_t transcripts = 0, features_checked = 0, initials_checked = 0, absent_with_config = 0, connected_with_config = 0;

	bool lost_fired = false; uint64_t lost_during_features = 0;
	bool enum_fired = false; uint64_t lost_during_enum = 0, hub_logins = 0;
	void attach(Engine &e) override {
		world = cfg::from_json(e.plan["world"]); checked_from = 0; transcripts = features_checked = initials_checked = absent_with_config = connected_with_config = 0;
		lost_fired = false; lost_during_features = 0;
		e.bus.on_request = nullptr;
		enum_fired = false; lost_during_enum = hub_logins = 0;
		if (e.plan.has("lost_during_enumeration")) {
			std::vector<uint8_t> lost = j_bytes(e.plan["lost_during_enumeration"]["lost"]);
			e.bus.on_request = [this, &e, lost](bus::Node &n, const ref::Msg &m) {
				if (!enum_fired && m.type == MSG_NODETAB_GETNEXT && n.addr.empty() && n.enum_active) {
					int pos = 0, p = -1; for (int c : n.children) if (e.bus.nodes[(size_t) c].present) { pos++; if (e.bus.nodes[(size_t) c].addr == lost) p = pos; }
					if (p > 0 && n.tab_iter > p) {      // its row has been read, more rows are still to come
						enum_fired = true; lost_during_enum++;
						J ev = J::obj(); ev.set("topo", "lost"); ev.set("node", pc::jaddr(lost)); e.topo_event(ev);
					}
				}
				return false;
			};
		}
		if (e.plan.has("hub_login_during_enum")) {
			std::vector<uint8_t> hub = j_bytes(e.plan["hub_login_during_enum"]["hub"]), trig = j_bytes(e.plan["hub_login_during_enum"]["on_getall_of"]);
			e.bus.on_request = [this, &e, hub, trig](bus::Node &n, const ref::Msg &m) {
				if (!enum_fired && m.type == MSG_NODETAB_GETALL && n.addr == trig) { enum_fired = true; hub_logins++; J ev = J::obj(); ev.set("topo", "new"); ev.set("node", pc::jaddr(hub)); e.topo_event(ev); }
				return false;
			};
		}
		if (e.plan.has("lost_during_features")) {
			std::vector<uint8_t> trig = j_bytes(e.plan["lost_during_features"]["on_feature_set_to"]), lost = j_bytes(e.plan["lost_during_features"]["lost"]);
			e.bus.on_request = [this, &e, trig, lost](bus::Node &n, const ref::Msg &m) {
				if (!lost_fired && m.type == MSG_FEATURE_SET && n.addr == trig) {
					lost_fired = true; lost_during_features++;
					J ev = J::obj(); ev.set("topo", "lost"); ev.set("node", pc::jaddr(lost));
					e.topo_event(ev);
				}
				return false;
			};
		}
	}

	static ref::Msg mk(const std::vector<uint8_t> &addr, uint8_t type, std::vector<uint8_t> d) { ref::Msg m; m.addr = addr; m.type = type; m.data = d; return m; }

	void check_transcript(Engine &e, const char *when) {
		const auto &W = e.bus.wire;
		// the dialogue under test starts at the last SYS_RESET
		size_t begin = checked_from;
		for (size_t i = checked_from; i < W.size(); i++) if (W[i].msg.type == MSG_SYS_RESET) begin = i;
		checked_from = W.size();
		transcripts++;
		// connectivity: the tree as it is (no topology changes in this workload)
		std::map<std::string, std::vector<uint8_t>> addr;
		for (auto &b : world.boards) { int idx = e.bus.find_uid(b.uid); if (idx >= 0 && e.bus.nodes[(size_t) idx].present && e.bus.subtree_present(idx)) addr[b.id] = e.bus.nodes[(size_t) idx].addr; }
		for (auto &b : world.boards) {
			bool cfgd = !b.features.empty(); for (auto &a : b.points_board) if (!a.initial.empty()) cfgd = true; for (auto &a : b.points_dcc) if (!a.initial.empty()) cfgd = true;
			for (auto &a : b.signals_board) if (!a.initial.empty()) cfgd = true; for (auto &a : b.signals_dcc) if (!a.initial.empty()) cfgd = true; for (auto &a : b.periphs) if (!a.initial.empty()) cfgd = true;
			if (cfgd) { if (addr.count(b.id)) connected_with_config++; else absent_with_config++; }
		}
		// --- A. SYS_ENABLE exactly once
		std::vector<size_t> en; for (size_t i = begin; i < W.size(); i++) if (W[i].msg.type == MSG_SYS_ENABLE) en.push_back(i);
		if (en.size() != 1) e.violate("ENABLE_COUNT", when, std::to_string(en.size()) + " MSG_SYS_ENABLE in the start-up dialogue, expected exactly one");
		size_t ie = en[0];
		// --- B. features
		std::map<std::string, int> expf, gotf;
		for (auto &b : world.boards) if (addr.count(b.id)) for (auto &f : b.features) expf[pc::msg_key(mk(addr[b.id], MSG_FEATURE_SET, {f.first, f.second}))]++;
		for (size_t i = begin; i < W.size(); i++) if (W[i].msg.type == MSG_FEATURE_SET) {
			std::string k = pc::msg_key(W[i].msg); gotf[k]++;
			if (i > ie) e.violate("FEATURE_AFTER_ENABLE", when, "feature setting " + k + " is sent after MSG_SYS_ENABLE");
		}
		features_checked += expf.size();
		for (auto &kv : expf) if (gotf[kv.first] != kv.second) e.violate(gotf[kv.first] < kv.second ? "FEATURE_NOT_SENT" : "FEATURE_SENT_TWICE", when, "configured feature " + kv.first + " was sent " + std::to_string(gotf[kv.first]) + " times, expected " + std::to_string(kv.second));
		for (auto &kv : gotf) if (!expf.count(kv.first)) e.violate("FEATURE_TO_WRONG_NODE", when, "feature setting " + kv.first + " is not configured for the board at that address (or the board is not connected)");
		// --- C. GO to every connected track output, after SYS_ENABLE
		std::map<std::string, int> expg, gotg; size_t last_go = ie;
		for (auto &b : world.boards) if (addr.count(b.id) && b.track_output()) expg[pc::msg_key(mk(addr[b.id], MSG_CS_SET_STATE, {3}))]++;
		for (size_t i = begin; i < W.size(); i++) if (W[i].msg.type == MSG_CS_SET_STATE && W[i].msg.data.size() == 1 && W[i].msg.data[0] == 3) { gotg[pc::msg_key(W[i].msg)]++; if (i < ie) e.violate("GO_BEFORE_ENABLE", when, "track output switched on before MSG_SYS_ENABLE"); last_go = std::max(last_go, i); }
		if (expg != gotg) { std::string d = "track outputs switched on: ["; for (auto &kv : gotg) d += kv.first + " "; d += "], connected track outputs: ["; for (auto &kv : expg) d += kv.first + " "; d += "]"; e.violate("GO_SET", when, d); }
		// --- D. initial accessory / peripheral aspects exactly once, after the last GO
		std::map<std::string, int> expi, goti;
		for (auto &b : world.boards) {
			if (!addr.count(b.id)) continue;
			const std::vector<uint8_t> &ad = addr[b.id];
			for (const std::vector<cfg::BoardAcc> *v : {&b.points_board, &b.signals_board}) for (auto &a : *v) if (!a.initial.empty()) for (auto &as : a.aspects) if (as.id == a.initial) expi[pc::msg_key(mk(ad, MSG_ACCESSORY_SET, {a.number, as.value}))]++;
			for (const std::vector<cfg::DccAcc> *v : {&b.points_dcc, &b.signals_dcc}) for (auto &a : *v) if (!a.initial.empty()) for (auto &as : a.aspects) if (as.id == a.initial) for (auto &pv : as.ports) expi[pc::msg_key(mk(ad, MSG_CS_ACCESSORY, {a.addrl, a.addrh, (uint8_t) ((pv.port & 0x1F) | (pv.value << 5) | (a.extended << 7)), 0}))]++;
			for (auto &p : b.periphs) if (!p.initial.empty()) for (auto &as : p.aspects) if (as.id == p.initial) expi[pc::msg_key(mk(ad, MSG_LC_OUTPUT, {p.port0, p.port1, as.value}))]++;
		}
		for (size_t i = begin; i < W.size(); i++) {
			uint8_t t = W[i].msg.type;
			if (t == MSG_ACCESSORY_SET || t == MSG_CS_ACCESSORY || t == MSG_LC_OUTPUT) { goti[pc::msg_key(W[i].msg)]++; if (i < last_go) e.violate("INITIAL_BEFORE_GO", when, "initial value " + pc::msg_key(W[i].msg) + " is commanded before the track outputs are switched on"); }
		}
		initials_checked += expi.size();
		for (auto &kv : expi) if (goti[kv.first] != kv.second) e.violate(goti[kv.first] < kv.second ? "INITIAL_NOT_SENT" : "INITIAL_SENT_TWICE", when, "configured initial value " + kv.first + " was commanded " + std::to_string(goti[kv.first]) + " times, expected " + std::to_string(kv.second));
		for (auto &kv : goti) if (!expi.count(kv.first)) e.violate("INITIAL_UNCONFIGURED", when, "message " + kv.first + " corresponds to no configured initial value of a connected board");
		// --- E. initial train functions: once per connected track output, group bits accumulate per train
		std::vector<const cfg::Board *> tos; for (auto &b : world.boards) if (addr.count(b.id) && b.track_output()) tos.push_back(&b);
		std::map<std::string, std::vector<std::string>> expt, gott;   // per track output address: sequence of function messages
		for (auto &t : world.trains) {
			std::map<int, int> bits;   // optimistic function state of this train
			for (auto &p : t.periphs) {
				if (p.initial < 0) continue;
				int lo, hi; uint8_t active;
				if (p.bit < 5) { lo = 0; hi = 4; active = 0x02; } else if (p.bit < 12) { lo = 8; hi = 11; active = 0x04; } else if (p.bit < 16) { lo = 12; hi = 15; active = 0x08; } else if (p.bit < 24) { lo = 16; hi = 23; active = 0x10; } else { lo = 24; hi = 31; active = 0x20; }
				bits[p.bit] = p.initial;
				uint8_t f[4] = {0, 0, 0, 0};
				for (auto &q : t.periphs) if (q.bit >= lo && q.bit <= hi && bits.count(q.bit)) f[q.bit / 8] |= (uint8_t) (bits[q.bit] << (q.bit % 8));
				uint8_t fmt = t.steps == 28 ? 2 : t.steps == 126 ? 3 : 0;
				for (auto *b : tos) expt[hex_of(addr[b->id])].push_back(pc::msg_key(mk(addr[b->id], MSG_CS_DRIVE, {t.addrl, t.addrh, fmt, active, 0, f[0], f[1], f[2], f[3]})));
			}
		}
		for (size_t i = begin; i < W.size(); i++) if (W[i].msg.type == MSG_CS_DRIVE && W[i].msg.data.size() == 9 && (W[i].msg.data[3] & 0x3E) && !(W[i].msg.data[3] & 1)) {
			gott[hex_of(W[i].msg.addr)].push_back(pc::msg_key(W[i].msg));
			if (i < last_go) e.violate("INITIAL_BEFORE_GO", when, "initial train function " + pc::msg_key(W[i].msg) + " is commanded before the track outputs are switched on");
		}
		if (expt != gott) {
			std::string d = "initial train functions on the wire differ from the configuration: ";
			for (auto &kv : expt) { d += "to " + kv.first + " expected ["; for (auto &x : kv.second) d += x + " "; d += "] got ["; for (auto &x : gott[kv.first]) d += x + " "; d += "]; "; }
			for (auto &kv : gott) if (!expt.count(kv.first)) d += "unexpected to " + kv.first + "; ";
			e.violate("TRAIN_INITIALS", when, d);
		}
	}

	void at_quiescence(Engine &e, int s, int p) override {
		if (e.plan["sessions"][(size_t) s]["phases"][(size_t) p].getb("check")) check_transcript(e, p == 0 ? "start" : "system reset");
	}
	void coverage(Engine &e, J &f) override {
		f.set("nontrivial", absent_with_config > 0 && connected_with_config > 0);
		f.set("shape", (long long) (pc::shape_hash(e.plan) >> 1) ^ (long long) (fnv1a(FNV_INIT, e.plan["configs"].dump().data(), e.plan["configs"].dump().size()) >> 2));
		J pr = J::obj(); pr.set("transcripts_checked", (long long) transcripts); pr.set("features_checked", (long long) features_checked); pr.set("initial_values_checked", (long long) initials_checked); pr.set("board_lost_while_waiting_for_an_earlier_boards_features", (long long) lost_during_features); pr.set("board_lost_after_its_table_row_was_read", (long long) lost_during_enum); pr.set("interface_with_boards_logging_in_during_the_enumeration", (long long) hub_logins);
		pr.set("absent_boards_with_config", (long long) absent_with_config);
		f.set("probes", pr);
	}
};

}  // namespace

Prop *make_c20() { return new C20(); }

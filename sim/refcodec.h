// Independent reference codec for the BiDiB serial transport (written from the specification):
// packet framing with 0xFE delimiters, 0xFD escapes, CRC8 (poly x^8+x^5+x^4+1, reflected, bit by bit),
// message layout  LEN | ADDR.. | 0 | SEQ | TYPE | DATA..
#pragma once
#include <stdint.h>
#include <vector>
#include <string>
#include <deque>
#include "json.h"

namespace ref {

static const uint8_t MAGIC = 0xFE, ESC = 0xFD;

inline uint8_t crc8_step(uint8_t crc, uint8_t b) {
	crc ^= b;
	for (int i = 0; i < 8; i++) crc = (crc & 1) ? (uint8_t) ((crc >> 1) ^ 0x8C) : (uint8_t) (crc >> 1);
	return crc;
}
inline uint8_t crc8(const uint8_t *p, size_t n) { uint8_t c = 0; for (size_t i = 0; i < n; i++) c = crc8_step(c, p[i]); return c; }
inline uint8_t crc8(const std::vector<uint8_t> &v) { return crc8(v.data(), v.size()); }

struct Msg {
	std::vector<uint8_t> addr;   // non-zero address bytes (0..3; more only in adversarial input)
	uint8_t seq = 0, type = 0;
	std::vector<uint8_t> data;
	std::vector<uint8_t> raw;    // complete message bytes incl. length byte (as decoded)

	std::vector<uint8_t> encode() const {
		std::vector<uint8_t> m;
		m.push_back((uint8_t) (addr.size() + 3 + data.size()));
		for (uint8_t a : addr) m.push_back(a);
		m.push_back(0); m.push_back(seq); m.push_back(type);
		for (uint8_t d : data) m.push_back(d);
		return m;
	}
	uint32_t addr_key() const { uint32_t k = 0; for (size_t i = 0; i < 3; i++) k = (k << 8) | (i < addr.size() ? addr[i] : 0); return k; }
	std::string addr_str() const {
		char b[32]; snprintf(b, sizeof b, "%u.%u.%u", addr.size() > 0 ? addr[0] : 0, addr.size() > 1 ? addr[1] : 0, addr.size() > 2 ? addr[2] : 0);
		return b;
	}
	J to_json() const {
		J j = J::obj(); J a = J::arr(); for (uint8_t x : addr) a.push((int) x);
		j.set("addr", a); j.set("seq", (int) seq); j.set("type", (int) type); j.set("data", hex_of(data));
		return j;
	}
};

inline void put_escaped(std::vector<uint8_t> &out, uint8_t b) {
	if (b == MAGIC || b == ESC) { out.push_back(ESC); out.push_back((uint8_t) (b ^ 0x20)); }
	else out.push_back(b);
}
// payload (concatenated messages) -> framed packet
inline std::vector<uint8_t> frame(const std::vector<uint8_t> &payload) {
	std::vector<uint8_t> out;
	out.push_back(MAGIC);
	for (uint8_t b : payload) put_escaped(out, b);
	put_escaped(out, crc8(payload));
	out.push_back(MAGIC);
	return out;
}
inline std::vector<uint8_t> frame_msgs(const std::vector<Msg> &ms) {
	std::vector<uint8_t> p;
	for (auto &m : ms) { auto e = m.encode(); p.insert(p.end(), e.begin(), e.end()); }
	return frame(p);
}

enum FrameClass { GOOD = 0, BAD_CRC = 1, UNSPEC = 2 };

struct Frame {
	FrameClass cls = UNSPEC;
	std::vector<uint8_t> payload;   // unescaped, without CRC (when at least the CRC byte exists)
	std::vector<Msg> msgs;          // only for GOOD
	size_t raw_begin = 0, raw_end = 0;
	bool crc_escaped = false, had_escape = false;
	std::string why;
};

// Split a payload into well-formed messages. Returns false when it is not a concatenation of
// well-formed messages (length overruns, missing terminator, more than 3 address bytes, too short).
inline bool split_msgs(const std::vector<uint8_t> &p, std::vector<Msg> &out, std::string *why = nullptr) {
	size_t i = 0;
	while (i < p.size()) {
		size_t len = p[i];
		if (len < 3) { if (why) *why = "len<3"; return false; }
		if (i + len >= p.size()) { if (why) *why = "len overruns packet"; return false; }
		Msg m;
		size_t k = i + 1, end = i + len;   // last index of message
		while (k <= end && p[k] != 0) { m.addr.push_back(p[k]); k++; }
		if (k > end) { if (why) *why = "no address terminator"; return false; }
		if (m.addr.size() > 3) { if (why) *why = "address deeper than 3"; return false; }
		if (k + 2 > end) { if (why) *why = "no seq/type"; return false; }
		m.seq = p[k + 1]; m.type = p[k + 2];
		m.data.assign(p.begin() + (long) k + 3, p.begin() + (long) end + 1);
		m.raw.assign(p.begin() + (long) i, p.begin() + (long) end + 1);
		out.push_back(m);
		i = end + 1;
	}
	return true;
}

// Decode an arbitrary byte stream the way the serial transport is specified: frames are the non-empty
// byte runs between delimiters. max_unescaped: frames longer than this are UNSPEC (receiver buffer limit).
inline std::vector<Frame> decode_stream(const std::vector<uint8_t> &s, size_t max_unescaped = 255, bool *trailing_open = nullptr) {
	std::vector<Frame> fs;
	std::vector<uint8_t> cur;
	bool esc = false, dangling = false, any_esc = false, last_was_esc_byte = false;
	size_t begin = 0;
	bool in = false;
	for (size_t i = 0; i < s.size(); i++) {
		uint8_t b = s[i];
		if (b == MAGIC) {
			if (!cur.empty() || esc) {
				Frame f;
				f.raw_begin = begin; f.raw_end = i; f.had_escape = any_esc;
				if (esc) dangling = true;
				if (cur.empty()) { f.cls = UNSPEC; f.why = "only an escape"; }
				else {
					uint8_t c = crc8(cur);
					f.payload.assign(cur.begin(), cur.end() - 1);
					f.crc_escaped = last_was_esc_byte;
					if (dangling) { f.cls = UNSPEC; f.why = "dangling escape"; }
					else if (cur.size() > max_unescaped) { f.cls = UNSPEC; f.why = "oversized"; }
					else if (c != 0) { f.cls = BAD_CRC; }
					else {
						std::string why;
						if (split_msgs(f.payload, f.msgs, &why)) f.cls = GOOD;
						else { f.cls = UNSPEC; f.why = why; f.msgs.clear(); }
					}
				}
				fs.push_back(f);
			}
			cur.clear(); esc = false; dangling = false; any_esc = false; last_was_esc_byte = false; in = true; begin = i + 1;
			continue;
		}
		if (!in) continue;   // bytes before the first delimiter of the stream belong to no frame
		if (b == ESC) {
			if (esc) dangling = true;   // FD FD : unspecified
			esc = true; any_esc = true;
			continue;
		}
		if (esc) { cur.push_back((uint8_t) (b ^ 0x20)); esc = false; last_was_esc_byte = true; }
		else { cur.push_back(b); last_was_esc_byte = false; }
	}
	if (trailing_open) *trailing_open = !cur.empty() || esc;
	return fs;
}

// Strict incremental decoder for the DOWNLINK: everything the library writes must be
//   FE <escaped payload> <escaped crc> FE   repeated, nothing else.
struct DownDecoder {
	std::vector<uint8_t> cur;
	bool esc = false, in_frame = false;
	size_t total = 0, frames = 0, escapes = 0, crc_escapes = 0;
	bool last_esc_byte = false;
	std::string error;     // first framing error
	std::vector<std::vector<Msg>> out;      // decoded packets since last take()
	std::vector<size_t> out_sizes;          // unescaped payload size of each
	void feed(const uint8_t *p, size_t n) {
		for (size_t i = 0; i < n; i++) {
			uint8_t b = p[i];
			total++;
			if (!error.empty()) continue;
			if (b == MAGIC) {
				if (esc) { error = "delimiter directly after an escape byte"; continue; }
				if (!in_frame) { in_frame = true; cur.clear(); continue; }
				// closing delimiter
				if (cur.empty()) {
					// "FE FE": end of one packet immediately followed by start of next is written as FE...FE FE...FE,
					// so an empty run means the previous delimiter was a start with nothing in it
					error = "empty packet (two delimiters with nothing in between at a packet start)";
					continue;
				}
				if (cur.size() < 2) { error = "packet shorter than one message + crc"; continue; }
				uint8_t c = crc8(cur);
				if (c != 0) { error = "wrong CRC on downlink packet"; continue; }
				if (last_esc_byte) crc_escapes++;
				std::vector<uint8_t> payload(cur.begin(), cur.end() - 1);
				std::vector<Msg> ms; std::string why;
				if (!split_msgs(payload, ms, &why)) { error = "payload is not a concatenation of whole messages: " + why; continue; }
				out.push_back(ms); out_sizes.push_back(payload.size());
				frames++; in_frame = false; cur.clear();
				continue;
			}
			if (!in_frame) { error = "byte outside of a packet (missing start delimiter)"; continue; }
			if (b == ESC) { if (esc) { error = "escape after escape"; continue; } esc = true; escapes++; continue; }
			if (esc) {
				uint8_t u = (uint8_t) (b ^ 0x20);
				cur.push_back(u); esc = false; last_esc_byte = true;
			} else { cur.push_back(b); last_esc_byte = false; }
		}
	}
	bool idle() const { return !in_frame && !esc; }
};

}  // namespace ref

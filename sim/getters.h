// Catalogue of getters: call by name, canonical JSON of the result, retain / re-canonicalise / free.
#pragma once
#include <string>
#include <vector>
#include "json.h"
#include "lib.h"
#include "sim_core.h"

namespace getters {

inline J js(const char *s) { return s ? J(std::string(s)) : J(); }

inline J power(const t_bidib_power_consumption &p, bool mask) {
	J j = J::obj(); j.set("known", p.known);
	if (!mask || p.known) j.set("over", p.overcurrent);
	if (!mask || (p.known && !p.overcurrent)) j.set("current", (long long) p.current);
	return j;
}
inline J board_acc(const t_bidib_board_accessory_state_data &d) {
	J j = J::obj(); j.set("state_id", js(d.state_id)); j.set("value", (int) d.state_value); j.set("exec", (int) d.execution_state); j.set("wait", (int) d.wait_details); return j;
}
inline J dcc_acc(const t_bidib_dcc_accessory_state_data &d) {
	J j = J::obj(); j.set("state_id", js(d.state_id)); j.set("value", (int) d.state_value); j.set("coil_on", d.coil_on);
	j.set("oct", d.output_controls_timing); j.set("ack", (int) d.ack); j.set("unit", (int) d.time_unit); j.set("time", (int) d.switch_time); return j;
}
inline J periph(const t_bidib_peripheral_state_data &d) {
	J j = J::obj(); j.set("state_id", js(d.state_id)); j.set("value", (int) d.state_value); j.set("unit", (int) d.time_unit); j.set("wait", (int) d.wait); return j;
}
inline J reverser(const t_bidib_reverser_state_data &d) { J j = J::obj(); j.set("state_id", js(d.state_id)); j.set("value", (int) d.state_value); return j; }
inline J segment(const t_bidib_segment_state_data &d, bool mask) {
	J j = J::obj(); j.set("occ", d.occupied);
	J c = J::arr(); c.push(d.confidence.conf_void); c.push(d.confidence.freeze); c.push(d.confidence.nosignal); j.set("conf", c);
	j.set("power", power(d.power_consumption, mask));
	J a = J::arr();
	for (size_t i = 0; i < d.dcc_address_cnt; i++) { J e = J::arr(); e.push((int) d.dcc_addresses[i].addrl); e.push((int) d.dcc_addresses[i].addrh); e.push((int) d.dcc_addresses[i].type); a.push(e); }
	j.set("addrs", a); return j;
}
inline J train(const t_bidib_train_state_data &d, bool mask) {
	J j = J::obj(); j.set("on_track", d.on_track);
	if (!mask || d.on_track) j.set("orient", (int) d.orientation);
	j.set("speed", d.set_speed_step); j.set("fwd", d.set_is_forwards); j.set("ack", (int) d.ack); j.set("kmh", d.detected_kmh_speed);
	J p = J::arr();
	for (size_t i = 0; i < d.peripheral_cnt; i++) { J e = J::arr(); e.push(js(d.peripherals[i].id)); e.push((int) d.peripherals[i].state); p.push(e); }
	j.set("periph", p);
	J dc = J::obj(); const t_bidib_train_decoder_state &s = d.decoder_state;
	dc.set("sq_known", s.signal_quality_known); if (!mask || s.signal_quality_known) dc.set("sq", (int) s.signal_quality);
	dc.set("temp_known", s.temp_known); if (!mask || s.temp_known) dc.set("temp", (int) s.temp_celsius);
	dc.set("es_known", s.energy_storage_known); if (!mask || s.energy_storage_known) dc.set("es", (int) s.energy_storage);
	dc.set("c2_known", s.container2_storage_known); if (!mask || s.container2_storage_known) dc.set("c2", (int) s.container2_storage);
	dc.set("c3_known", s.container3_storage_known); if (!mask || s.container3_storage_known) dc.set("c3", (int) s.container3_storage);
	j.set("decoder", dc); return j;
}
inline J booster(const t_bidib_booster_state_data &d, bool mask) {
	J j = J::obj(); j.set("state", (int) d.power_state); j.set("simple", (int) d.power_state_simple); j.set("power", power(d.power_consumption, mask));
	j.set("v_known", d.voltage_known); if (!mask || d.voltage_known) j.set("v", (int) d.voltage);
	j.set("t_known", d.temp_known); if (!mask || d.temp_known) j.set("t", (int) d.temp_celsius); return j;
}
inline J idlist(const t_bidib_id_list_query &q) { J a = J::arr(); for (size_t i = 0; i < q.length; i++) a.push(js(q.ids[i])); return a; }

inline J track_state(const t_bidib_track_state &t, bool mask) {
	J j = J::obj();
	J a = J::obj(); for (size_t i = 0; i < t.points_board_count; i++) a.set(t.points_board[i].id ? t.points_board[i].id : "(null)", board_acc(t.points_board[i].data)); j.set("points_board", a);
	a = J::obj(); for (size_t i = 0; i < t.points_dcc_count; i++) a.set(t.points_dcc[i].id ? t.points_dcc[i].id : "(null)", dcc_acc(t.points_dcc[i].data)); j.set("points_dcc", a);
	a = J::obj(); for (size_t i = 0; i < t.signals_board_count; i++) a.set(t.signals_board[i].id ? t.signals_board[i].id : "(null)", board_acc(t.signals_board[i].data)); j.set("signals_board", a);
	a = J::obj(); for (size_t i = 0; i < t.signals_dcc_count; i++) a.set(t.signals_dcc[i].id ? t.signals_dcc[i].id : "(null)", dcc_acc(t.signals_dcc[i].data)); j.set("signals_dcc", a);
	a = J::obj(); for (size_t i = 0; i < t.peripherals_count; i++) a.set(t.peripherals[i].id ? t.peripherals[i].id : "(null)", periph(t.peripherals[i].data)); j.set("peripherals", a);
	a = J::obj(); for (size_t i = 0; i < t.segments_count; i++) a.set(t.segments[i].id ? t.segments[i].id : "(null)", segment(t.segments[i].data, mask)); j.set("segments", a);
	a = J::obj(); for (size_t i = 0; i < t.reversers_count; i++) a.set(t.reversers[i].id ? t.reversers[i].id : "(null)", reverser(t.reversers[i].data)); j.set("reversers", a);
	a = J::obj(); for (size_t i = 0; i < t.trains_count; i++) a.set(t.trains[i].id ? t.trains[i].id : "(null)", train(t.trains[i].data, mask)); j.set("trains", a);
	a = J::obj(); for (size_t i = 0; i < t.booster_count; i++) a.set(t.booster[i].id ? t.booster[i].id : "(null)", booster(t.booster[i].data, mask)); j.set("boosters", a);
	a = J::obj(); for (size_t i = 0; i < t.track_outputs_count; i++) { J o = J::obj(); o.set("cs", (int) t.track_outputs[i].cs_state); a.set(t.track_outputs[i].id ? t.track_outputs[i].id : "(null)", o); } j.set("track_outputs", a);
	return j;
}

// ---- raw scan for uninitialised fields: stack garbage is 0xAA.. (-ftrivial-auto-var-init=pattern), fresh heap 0xA5.. (ASan fill);
// a bool that is neither 0 nor 1, an enum outside its range or a pointer made of the fill pattern can only be uninitialised memory
struct Scan {
	std::string bad;
	void b(const char *name, const bool &v) { uint8_t x; memcpy(&x, &v, 1); if (x > 1 && bad.empty()) bad = std::string(name) + " (bool) holds " + std::to_string(x); }
	template <class E> void e(const char *name, const E &v, std::initializer_list<long> ok) { long x = (long) (int) v; bool f = false; for (long o : ok) if (o == x) f = true; if (!f && bad.empty()) bad = std::string(name) + " (enum) holds " + std::to_string(x); }
	void p(const char *name, const void *ptr) { uintptr_t x = (uintptr_t) ptr; if ((x == 0xAAAAAAAAAAAAAAAAULL || x == 0xA5A5A5A5A5A5A5A5ULL) && bad.empty()) bad = std::string(name) + " (pointer) holds the fill pattern"; }
	void i(const char *name, long long v) { if ((v == (int) 0xAAAAAAAA || v == (int) 0xA5A5A5A5 || (unsigned long long) v == 0xAAAAAAAAAAAAAAAAULL || (unsigned long long) v == 0xAAAAAAAAULL) && bad.empty()) bad = std::string(name) + " (integer) holds the fill pattern"; }
	void power(const char *n, const t_bidib_power_consumption &q) { b((std::string(n) + ".known").c_str(), q.known); if (q.known) b((std::string(n) + ".overcurrent").c_str(), q.overcurrent); if (q.known && !q.overcurrent) i((std::string(n) + ".current").c_str(), q.current); }
	void board_acc(const t_bidib_board_accessory_state_data &d) { p("state_id", d.state_id); e("execution_state", d.execution_state, {0, 1, 2, 3, 0x80}); }
	void dcc_acc(const t_bidib_dcc_accessory_state_data &d) { p("state_id", d.state_id); b("coil_on", d.coil_on); b("output_controls_timing", d.output_controls_timing); e("ack", d.ack, {0, 1, 2, 3, 4}); e("time_unit", d.time_unit, {0, 1}); }
	void periph(const t_bidib_peripheral_state_data &d) { p("state_id", d.state_id); e("time_unit", d.time_unit, {0, 1}); }
	void seg(const t_bidib_segment_state_data &d) { b("occupied", d.occupied); b("conf_void", d.confidence.conf_void); b("freeze", d.confidence.freeze); b("nosignal", d.confidence.nosignal); power("power_consumption", d.power_consumption); i("dcc_address_cnt", (long long) d.dcc_address_cnt); if (d.dcc_address_cnt) p("dcc_addresses", d.dcc_addresses); }
	void rev(const t_bidib_reverser_state_data &d) { p("state_id", d.state_id); e("state_value", d.state_value, {0, 1, 2}); }
	void train(const t_bidib_train_state_data &d) {
		b("on_track", d.on_track); if (d.on_track) e("orientation", d.orientation, {0, 1}); i("set_speed_step", d.set_speed_step); b("set_is_forwards", d.set_is_forwards); e("ack", d.ack, {0, 1, 2, 3, 4});
		i("detected_kmh_speed", d.detected_kmh_speed); i("peripheral_cnt", (long long) d.peripheral_cnt); if (d.peripheral_cnt) p("peripherals", d.peripherals);
		for (size_t k = 0; k < d.peripheral_cnt && k < 64; k++) p("peripherals[].id", d.peripherals[k].id);
		b("signal_quality_known", d.decoder_state.signal_quality_known); b("temp_known", d.decoder_state.temp_known); b("energy_storage_known", d.decoder_state.energy_storage_known);
		b("container2_storage_known", d.decoder_state.container2_storage_known); b("container3_storage_known", d.decoder_state.container3_storage_known);
	}
	void booster(const t_bidib_booster_state_data &d) { power("power_consumption", d.power_consumption); b("voltage_known", d.voltage_known); b("temp_known", d.temp_known); e("power_state_simple", d.power_state_simple, {0, 1, 2}); }
};
// A retained query result (C17): acquire now, canonicalise any number of times, free once.
struct Ret {
	std::string fn;
	int kind = 0;     // 0 plain value (in val), 1 track_state, 2 unified acc, 3 periph, 4 segment, 5 reverser, 6 id, 7 idlist, 8 features, 9 position, 10 train state
	J val;
	t_bidib_track_state ts; t_bidib_unified_accessory_state_query ua; t_bidib_peripheral_state_query pq; t_bidib_segment_state_query sq;
	t_bidib_reverser_state_query rq; t_bidib_id_query idq; t_bidib_id_list_query il; t_bidib_board_features_query bf; t_bidib_train_position_query tp;
	t_bidib_train_state_query tsq;
	bool freed = false;
	std::string pre_scan;      // uninitialised-field finding for value-type results (scanned at acquisition)
};

inline const char *cs(const std::vector<std::string> &v, size_t i) { return (i < v.size() && v[i] != "\x01NULL") ? v[i].c_str() : nullptr; }

inline bool acquire(Ret &r, const std::string &fn, const std::vector<std::string> &s, const J &iv) {
	r.fn = fn;
	auto uid = [&]() { t_bidib_unique_id_mod u = {(uint8_t) iv[0].num(), (uint8_t) iv[1].num(), (uint8_t) iv[2].num(), (uint8_t) iv[3].num(), (uint8_t) iv[4].num(), (uint8_t) iv[5].num(), (uint8_t) iv[6].num()}; return u; };
	if (fn == "state") { r.kind = 1; r.ts = bidib_get_state(); }
	else if (fn == "point_state") { r.kind = 2; r.ua = bidib_get_point_state(cs(s, 0)); }
	else if (fn == "signal_state") { r.kind = 2; r.ua = bidib_get_signal_state(cs(s, 0)); }
	else if (fn == "peripheral_state") { r.kind = 3; r.pq = bidib_get_peripheral_state(cs(s, 0)); }
	else if (fn == "segment_state") { r.kind = 4; r.sq = bidib_get_segment_state(cs(s, 0)); }
	else if (fn == "reverser_state") { r.kind = 5; r.rq = bidib_get_reverser_state(cs(s, 0)); }
	else if (fn == "board_id") { r.kind = 6; r.idq = bidib_get_board_id(uid()); }
	else if (fn == "train_id") { r.kind = 6; t_bidib_dcc_address a = {(uint8_t) iv[0].num(), (uint8_t) iv[1].num(), 0}; r.idq = bidib_get_train_id(a); }
	else if (fn == "boards") { r.kind = 7; r.il = bidib_get_boards(); }
	else if (fn == "boards_connected") { r.kind = 7; r.il = bidib_get_boards_connected(); }
	else if (fn == "board_points") { r.kind = 7; r.il = bidib_get_board_points(cs(s, 0)); }
	else if (fn == "board_signals") { r.kind = 7; r.il = bidib_get_board_signals(cs(s, 0)); }
	else if (fn == "board_peripherals") { r.kind = 7; r.il = bidib_get_board_peripherals(cs(s, 0)); }
	else if (fn == "board_segments") { r.kind = 7; r.il = bidib_get_board_segments(cs(s, 0)); }
	else if (fn == "board_reversers") { r.kind = 7; r.il = bidib_get_board_reversers(cs(s, 0)); }
	else if (fn == "connected_points") { r.kind = 7; r.il = bidib_get_connected_points(); }
	else if (fn == "connected_signals") { r.kind = 7; r.il = bidib_get_connected_signals(); }
	else if (fn == "connected_peripherals") { r.kind = 7; r.il = bidib_get_connected_peripherals(); }
	else if (fn == "connected_segments") { r.kind = 7; r.il = bidib_get_connected_segments(); }
	else if (fn == "connected_reversers") { r.kind = 7; r.il = bidib_get_connected_reversers(); }
	else if (fn == "connected_boosters") { r.kind = 7; r.il = bidib_get_connected_boosters(); }
	else if (fn == "boosters") { r.kind = 7; r.il = bidib_get_boosters(); }
	else if (fn == "track_outputs") { r.kind = 7; r.il = bidib_get_track_outputs(); }
	else if (fn == "connected_track_outputs") { r.kind = 7; r.il = bidib_get_connected_track_outputs(); }
	else if (fn == "trains") { r.kind = 7; r.il = bidib_get_trains(); }
	else if (fn == "trains_on_track") { r.kind = 7; r.il = bidib_get_trains_on_track(); }
	else if (fn == "train_peripherals") { r.kind = 7; r.il = bidib_get_train_peripherals(cs(s, 0)); }
	else if (fn == "point_aspects") { r.kind = 7; r.il = bidib_get_point_aspects(cs(s, 0)); }
	else if (fn == "signal_aspects") { r.kind = 7; r.il = bidib_get_signal_aspects(cs(s, 0)); }
	else if (fn == "peripheral_aspects") { r.kind = 7; r.il = bidib_get_peripheral_aspects(cs(s, 0)); }
	else if (fn == "board_features") { r.kind = 8; r.bf = bidib_get_board_features(cs(s, 0)); }
	else if (fn == "train_position") { r.kind = 9; r.tp = bidib_get_train_position(cs(s, 0)); }
	else if (fn == "train_state") { r.kind = 10; r.tsq = bidib_get_train_state(cs(s, 0)); }
	else {
		r.kind = 0;
		J j = J::obj();
		if (fn == "uniqueid" || fn == "uniqueid_by_nodeaddr") {
			t_bidib_unique_id_query q;
			if (fn == "uniqueid") q = bidib_get_uniqueid(cs(s, 0));
			else { t_bidib_node_address a = {(uint8_t) iv[0].num(), (uint8_t) iv[1].num(), (uint8_t) iv[2].num()}; q = bidib_get_uniqueid_by_nodeaddr(a); }
			j.set("known", q.known);
			if (q.known) { J u = J::arr(); const uint8_t *p = &q.unique_id.class_id; for (int i = 0; i < 7; i++) u.push((int) p[i]); j.set("uid", u); }
		} else if (fn == "nodeaddr" || fn == "nodeaddr_by_uniqueid") {
			t_bidib_node_address_query q = fn == "nodeaddr" ? bidib_get_nodeaddr(cs(s, 0)) : bidib_get_nodeaddr_by_uniqueid(uid());
			j.set("known", q.known_and_connected);
			if (q.known_and_connected) { J u = J::arr(); u.push((int) q.address.top); u.push((int) q.address.sub); u.push((int) q.address.subsub); j.set("addr", u); }
		} else if (fn == "board_connected") j.set("v", bidib_get_board_connected(cs(s, 0)));
		else if (fn == "booster_state") { t_bidib_booster_state_query q = bidib_get_booster_state(cs(s, 0)); { Scan sc; sc.b("known", q.known); if (q.known) sc.booster(q.data); r.pre_scan = sc.bad; } j.set("known", q.known); if (q.known) j.set("data", booster(q.data, true)); }
		else if (fn == "track_output_state") { t_bidib_track_output_state_query q = bidib_get_track_output_state(cs(s, 0)); { Scan sc; sc.b("known", q.known); r.pre_scan = sc.bad; } j.set("known", q.known); if (q.known) j.set("cs", (int) q.cs_state); }
		else if (fn == "train_dcc_addr") { t_bidib_dcc_address_query q = bidib_get_train_dcc_addr(cs(s, 0)); j.set("known", q.known); if (q.known) { j.set("l", (int) q.dcc_address.addrl); j.set("h", (int) q.dcc_address.addrh); } }
		else if (fn == "train_peripheral_state") { t_bidib_train_peripheral_state_query q = bidib_get_train_peripheral_state(cs(s, 0), cs(s, 1)); { Scan sc; sc.b("available", q.available); r.pre_scan = sc.bad; } j.set("avail", q.available); if (q.available) j.set("state", (int) q.state); }
		else if (fn == "train_speed_step") { t_bidib_train_speed_step_query q = bidib_get_train_speed_step(cs(s, 0)); { Scan sc; sc.b("known_and_avail", q.known_and_avail); if (q.known_and_avail) { sc.b("is_forwards", q.is_forwards); sc.i("speed_step", q.speed_step); } r.pre_scan = sc.bad; } j.set("known", q.known_and_avail); if (q.known_and_avail) { j.set("speed", q.speed_step); j.set("fwd", q.is_forwards); } }
		else if (fn == "train_speed_kmh") { t_bidib_train_speed_kmh_query q = bidib_get_train_speed_kmh(cs(s, 0)); j.set("known", q.known_and_avail); if (q.known_and_avail) j.set("kmh", q.speed_kmh); }
		else if (fn == "train_on_track") j.set("v", bidib_get_train_on_track(cs(s, 0)));
		else if (fn == "point_state_index") j.set("v", (long long) bidib_get_point_state_index(cs(s, 0)));
		else if (fn == "signal_state_index") j.set("v", (long long) bidib_get_signal_state_index(cs(s, 0)));
		else if (fn == "segment_state_index") j.set("v", (long long) bidib_get_segment_state_index(cs(s, 0)));
		else return false;
		r.val = j;
	}
	return true;
}

inline J canon(const Ret &r, bool mask = true) {
	J j = J::obj();
	switch (r.kind) {
		case 0: return r.val;
		case 1: return track_state(r.ts, mask);
		case 2: j.set("known", r.ua.known); if (r.ua.known) { j.set("type", (int) r.ua.type); j.set("data", r.ua.type == BIDIB_ACCESSORY_BOARD ? board_acc(r.ua.board_accessory_state) : dcc_acc(r.ua.dcc_accessory_state)); } return j;
		case 3: j.set("avail", r.pq.available); if (r.pq.available) j.set("data", periph(r.pq.data)); return j;
		case 4: j.set("known", r.sq.known); if (r.sq.known) j.set("data", segment(r.sq.data, mask)); return j;
		case 5: j.set("avail", r.rq.available); if (r.rq.available) j.set("data", reverser(r.rq.data)); return j;
		case 6: j.set("known", r.idq.known); if (r.idq.known) j.set("id", js(r.idq.id)); return j;
		case 7: return idlist(r.il);
		case 8: { J a = J::arr(); for (size_t i = 0; i < r.bf.length; i++) { J e = J::arr(); e.push((int) r.bf.features[i].number); e.push((int) r.bf.features[i].value); a.push(e); } return a; }
		case 9: { J a = J::arr(); for (size_t i = 0; i < r.tp.length; i++) a.push(js(r.tp.segments[i])); j.set("segments", a); if (r.tp.length > 0) j.set("left", r.tp.orientation_is_left); return j; }
		case 10: j.set("known", r.tsq.known); if (r.tsq.known) j.set("data", train(r.tsq.data, mask)); return j;
	}
	return j;
}

inline std::string scan(const Ret &r) {
	if (!r.pre_scan.empty()) return r.pre_scan;
	Scan sc;
	switch (r.kind) {
		case 1: {
			const t_bidib_track_state &t = r.ts;
			for (size_t i = 0; i < t.points_board_count && sc.bad.empty(); i++) { sc.p("points_board[].id", t.points_board[i].id); sc.board_acc(t.points_board[i].data); }
			for (size_t i = 0; i < t.signals_board_count && sc.bad.empty(); i++) { sc.p("signals_board[].id", t.signals_board[i].id); sc.board_acc(t.signals_board[i].data); }
			for (size_t i = 0; i < t.points_dcc_count && sc.bad.empty(); i++) { sc.p("points_dcc[].id", t.points_dcc[i].id); sc.dcc_acc(t.points_dcc[i].data); }
			for (size_t i = 0; i < t.signals_dcc_count && sc.bad.empty(); i++) { sc.p("signals_dcc[].id", t.signals_dcc[i].id); sc.dcc_acc(t.signals_dcc[i].data); }
			for (size_t i = 0; i < t.peripherals_count && sc.bad.empty(); i++) { sc.p("peripherals[].id", t.peripherals[i].id); sc.periph(t.peripherals[i].data); }
			for (size_t i = 0; i < t.segments_count && sc.bad.empty(); i++) { sc.p("segments[].id", t.segments[i].id); sc.seg(t.segments[i].data); }
			for (size_t i = 0; i < t.reversers_count && sc.bad.empty(); i++) { sc.p("reversers[].id", t.reversers[i].id); sc.rev(t.reversers[i].data); }
			for (size_t i = 0; i < t.trains_count && sc.bad.empty(); i++) { sc.p("trains[].id", t.trains[i].id); sc.train(t.trains[i].data); }
			for (size_t i = 0; i < t.booster_count && sc.bad.empty(); i++) { sc.p("booster[].id", t.booster[i].id); sc.booster(t.booster[i].data); }
			for (size_t i = 0; i < t.track_outputs_count && sc.bad.empty(); i++) sc.p("track_outputs[].id", t.track_outputs[i].id);
			break;
		}
		case 2: sc.b("known", r.ua.known); if (r.ua.known) { sc.e("type", r.ua.type, {0, 1}); if (r.ua.type == BIDIB_ACCESSORY_BOARD) sc.board_acc(r.ua.board_accessory_state); else sc.dcc_acc(r.ua.dcc_accessory_state); } break;
		case 3: sc.b("available", r.pq.available); if (r.pq.available) sc.periph(r.pq.data); else sc.p("data.state_id (must be freeable)", r.pq.data.state_id); break;
		case 4: sc.b("known", r.sq.known); if (r.sq.known) sc.seg(r.sq.data); break;
		case 5: sc.b("available", r.rq.available); if (r.rq.available) sc.rev(r.rq.data); else sc.p("data.state_id (must be freeable)", r.rq.data.state_id); break;
		case 6: sc.b("known", r.idq.known); sc.p("id", r.idq.id); break;
		case 7: sc.i("length", (long long) r.il.length); if (r.il.length) sc.p("ids", r.il.ids); break;
		case 8: sc.i("length", (long long) r.bf.length); if (r.bf.length) sc.p("features", r.bf.features); break;
		case 9: sc.i("length", (long long) r.tp.length); if (r.tp.length) { sc.p("segments", r.tp.segments); sc.b("orientation_is_left", r.tp.orientation_is_left); } break;
		case 10: sc.b("known", r.tsq.known); if (r.tsq.known) sc.train(r.tsq.data); break;
		default: break;
	}
	return sc.bad;
}

inline void release(Ret &r) {
	if (r.freed) return;
	r.freed = true;
	switch (r.kind) {
		case 1: bidib_free_track_state(r.ts); break;
		case 2: bidib_free_unified_accessory_state_query(r.ua); break;
		case 3: bidib_free_peripheral_state_query(r.pq); break;
		case 4: bidib_free_segment_state_query(r.sq); break;
		case 5: bidib_free_reverser_state_query(r.rq); break;
		case 6: bidib_free_id_query(r.idq); break;
		case 7: bidib_free_id_list_query(r.il); break;
		case 8: bidib_free_board_features_query(r.bf); break;
		case 9: bidib_free_train_position_query(r.tp); break;
		case 10: bidib_free_train_state_query(r.tsq); break;
		default: break;
	}
}

inline J call(const std::string &fn, const std::vector<std::string> &s, const J &iv) {
	Ret r;
	bool ok;
	ok = acquire(r, fn, s, iv);
	sim::HarnessScope hs;      // building the canonical JSON is harness work, not library allocation
	if (!ok) { J e = J::obj(); e.set("error", "unknown getter " + fn); return e; }
	J j = canon(r);
	{ sim::Task *t = sim::self(); bool sv = t ? t->in_lib : false; if (t) t->in_lib = true; release(r); if (t) t->in_lib = sv; }
	return j;
}

}  // namespace getters

/* Baton hand-off between simulated tasks.
 * Compiled WITHOUT any sanitizer and uses a raw syscall instruction, so ThreadSanitizer sees no
 * synchronisation here: happens-before edges come only from the library's own locks. */
#include <stdint.h>

#define SYS_futex_nr 202
#define FUTEX_WAIT_PRIVATE 128
#define FUTEX_WAKE_PRIVATE 129

static inline long raw_futex(volatile int *uaddr, long op, long val) {
	long ret;
	register long r10 __asm__("r10") = 0;
	register long r8 __asm__("r8") = 0;
	register long r9 __asm__("r9") = 0;
	__asm__ volatile("syscall"
	                 : "=a"(ret)
	                 : "0"(SYS_futex_nr), "D"(uaddr), "S"(op), "d"(val), "r"(r10), "r"(r8), "r"(r9)
	                 : "rcx", "r11", "memory");
	return ret;
}

void sim_baton_wait(volatile int *w) {
	for (;;) {
		if (__atomic_load_n(w, __ATOMIC_ACQUIRE)) break;
		raw_futex(w, FUTEX_WAIT_PRIVATE, 0);
	}
	__atomic_store_n(w, 0, __ATOMIC_RELAXED);
}

void sim_baton_post(volatile int *w) {
	__atomic_store_n(w, 1, __ATOMIC_RELEASE);
	raw_futex(w, FUTEX_WAKE_PRIVATE, 1);
}

#pragma once
struct Contract { void *fn; const char *name; void *lock; char mode; };
extern const Contract g_contracts[];

// Worker / replay driver.
//   sim --prop C03 --tier quick --seed0 S --count N --stride K --offset I --outdir D [--deadline-s T] [--twice-every M]
//   sim --replay FILE [--verbose] [--trace]
//   sim --prop C03 --tier quick --dump-plan SEED FILE
#define _GNU_SOURCE 1
#include <stdio.h>
#include <stdlib.h>
#include <string.h>
#include <unistd.h>
#include <time.h>
#include <sys/personality.h>
#include <sys/stat.h>
#include <fstream>
#include <sstream>
#include <set>
#include "engine.h"

extern "C" void __sanitizer_set_death_callback(void (*cb)(void)) __attribute__((weak));

// sanitizer runtime options compiled in (non-inline, used)
extern "C" __attribute__((used, visibility("default"))) const char *__asan_default_options() {
	return "exitcode=77:detect_leaks=0:malloc_fill_byte=165:max_malloc_fill_size=1048576:abort_on_error=0:"
	       "allocator_may_return_null=1:detect_stack_use_after_return=0:handle_abort=1:symbolize=1:print_summary=1";
}
extern "C" __attribute__((used, visibility("default"))) const char *__ubsan_default_options() {
	return "print_stacktrace=1:halt_on_error=1:exitcode=77";
}
extern "C" __attribute__((used, visibility("default"))) const char *__tsan_default_options() {
	return "halt_on_error=1:exitcode=66:report_signal_unsafe=0:second_deadlock_stack=1:history_size=4";
}

static std::string g_outdir = ".";
static std::string g_prop_id;
static uint64_t g_cur_seed = 0;
static bool g_replay_mode = false;
static Engine *g_cur = nullptr;
static bool g_in_fail = false;

static std::string read_file(const std::string &p) {
	std::ifstream f(p, std::ios::binary);
	std::stringstream ss; ss << f.rdbuf(); return ss.str();
}
static void write_file(const std::string &p, const std::string &s) {
	FILE *f = fopen(p.c_str(), "wb");
	if (!f) return;
	fwrite(s.data(), 1, s.size(), f);
	fclose(f);
}

static J replay_doc(const char *cls, const char *site, const char *detail) {
	J doc = g_cur ? g_cur->plan : J::obj();
	J dec = J::arr();
	for (auto &d : sim::recorded_decisions()) { J e = J::arr(); e.push((long long) d.first); e.push(d.second); dec.push(e); }
	doc.set("decisions", dec);
	J v = J::obj();
	v.set("class", cls); v.set("site", site); v.set("detail", detail);
	v.set("step", (long long) sim::step()); v.set("sim_time_us", (long long) sim::now_us());
	doc.set("violation", v);
	char h[32]; snprintf(h, sizeof h, "%016llx", (unsigned long long) sim::trace_hash());
	doc.set("trace_hash", h);
	return doc;
}

static void fail_handler(const char *cls, const char *site, const char *detail) {
	if (g_in_fail) _exit(3);
	g_in_fail = true;
	if (g_cur && g_cur->prop && !g_cur->prop->owns(cls)) {
		if (g_replay_mode) { printf("REPLAY-OK skipped-%s\n", cls); fflush(stdout); _exit(0); }
		printf("SKIP %llu %s\n", (unsigned long long) g_cur_seed, cls);
		fflush(stdout);
		_exit(5);
	}
	if (g_replay_mode) {
		printf("REPLAY-VIOLATION %s\t%s\t%s\n", cls, site, detail);
		fflush(stdout);
		_exit(3);
	}
	std::string path = g_outdir + "/cand-" + g_prop_id + "-" + std::to_string(g_cur_seed) + ".json";
	write_file(path, replay_doc(cls, site, detail).dump());
	printf("VIOL %llu %s\t%s\t%s\n", (unsigned long long) g_cur_seed, cls, site, path.c_str());
	fflush(stdout);
	_exit(3);
}

static void death_cb(void) {
	// a sanitizer is about to kill the process: keep plan + recorded schedule for the parent
	if (g_in_fail) return;
	g_in_fail = true;
	if (g_replay_mode || !g_cur) return;
	std::string path = g_outdir + "/cand-" + g_prop_id + "-" + std::to_string(g_cur_seed) + ".json";
	write_file(path, replay_doc("SANITIZER", "see-stderr", "sanitizer report").dump());
}

// ---- busy-loop monitor ------------------------------------------------------------------------------------------------
// The scheduler decides deadlocks and unbounded waits, but a loop that never reaches a scheduling point (no lock, sleep, callback
// or instrumented call in its body) cannot be seen from inside the simulation. A monitor thread outside the simulation watches
// the step counter: when the process has burnt MAX_CPU_S seconds of CPU time (not wall time: machine load does not count) without
// a single scheduling step, the run is reported as BUSY_LOOP. An ordinary step takes microseconds.
#include <pthread.h>
static const double MAX_CPU_S = 12.0;
static double cpu_now() { struct timespec ts; clock_gettime(CLOCK_PROCESS_CPUTIME_ID, &ts); return (double) ts.tv_sec + (double) ts.tv_nsec * 1e-9; }
static void *busy_monitor(void *) {
	uint64_t last_step = (uint64_t) -1; double cpu_at_change = cpu_now();
	for (;;) {
		usleep(250000);
		if (!g_cur || g_in_fail) { last_step = (uint64_t) -1; cpu_at_change = cpu_now(); continue; }
		uint64_t s = sim::step();
		if (s != last_step) { last_step = s; cpu_at_change = cpu_now(); continue; }
		if (cpu_now() - cpu_at_change > MAX_CPU_S) {
			std::string d = "no scheduling step for " + std::to_string((int) MAX_CPU_S) + " s of CPU time (step " + std::to_string(s) + "): a task loops without reaching any lock, sleep, callback or library call boundary: " + sim::describe_tasks();
			fail_handler("BUSY_LOOP", sim::current_api(), d.c_str());
		}
	}
	return nullptr;
}

static double wall() { struct timespec ts; clock_gettime(CLOCK_MONOTONIC, &ts); return (double) ts.tv_sec + (double) ts.tv_nsec * 1e-9; }

struct Acc {
	uint64_t evals = 0, nontrivial = 0;
	std::set<uint64_t> distinct, shapes;
	std::map<std::string, int64_t> probes, faults, policies;
	uint64_t steps = 0, switches = 0, sim_us = 0, contended = 0, overlap3 = 0, max_tasks = 0, api_calls = 0, wire_msgs = 0, uplink_frames = 0, decision_points = 0;
	J samples = J::arr();
	uint64_t twice_checked = 0;
};

static J trim_plan(const J &p) {
	std::string s = p.dump();
	if (s.size() <= 6000) return p;
	J j = J::obj();
	j.set("truncated_plan_json", s.substr(0, 6000));
	return j;
}

static uint64_t run_one(Prop *prop, const J &plan, Acc *acc, bool count) {
	Engine e(plan);
	e.prop = prop;
	g_cur = &e;
	e.run();
	uint64_t h = sim::trace_hash();
	if (acc && count) {
		const sim::RunStats &st = sim::stats();
		acc->evals++;
		acc->steps += st.steps; acc->switches += st.switches; acc->sim_us += st.sim_time_us; acc->contended += st.lock_contended;
		acc->overlap3 += st.overlap3; acc->max_tasks = std::max(acc->max_tasks, st.max_tasks);
		acc->api_calls += e.apis; acc->wire_msgs += e.bus.wire.size(); acc->uplink_frames += e.bus.done.size();
		acc->decision_points += sim::recorded_decision_points();
		for (auto &kv : e.bus.fired) acc->faults[kv.first] += (int64_t) kv.second;
		if (st.preempt_injected) acc->faults["thread-descheduled-at-lock-point"] += (int64_t) st.preempt_injected;
		if (st.starve_applied) acc->faults["thread-starved"] += (int64_t) st.starve_applied;
		for (auto &kv : e.probes) acc->probes[kv.first] += kv.second;
		static const char *pn[] = {"random-walk", "pct", "sticky", "starve", "replay", "fifo"};
		acc->policies[pn[plan["sched"].geti("policy", 0) % 6]]++;
		if (plan["sched"].geti("fn_yield", 0) > 0) acc->policies["fn-entry-preemption"]++;
		if (plan["sched"].geti("jitter_us", 0) > 0) acc->policies["sleep-jitter"]++;
		if (plan["sched"].geti("grid_us", 1) > 1) acc->policies["time-grid-" + std::to_string(plan["sched"].geti("grid_us", 1)) + "us"]++;
		J facts = J::obj();
		prop->coverage(e, facts);
		const J &pr = facts["probes"];
		for (auto &kv : pr.o) acc->probes[kv.first] += kv.second.num();
		if (facts.getb("nontrivial", false)) {
			acc->nontrivial++;
			uint64_t key = fnv1a_u64((uint64_t) facts.geti("shape", 0), h);
			acc->distinct.insert(key);
			acc->shapes.insert((uint64_t) facts.geti("shape", 0));
			if (acc->samples.size() < 2) acc->samples.push(trim_plan(plan));
		}
	}
	g_cur = nullptr;
	return h;
}

int main(int argc, char **argv) {
	// deterministic address space and allocator configuration: re-exec once with ASLR off and G_SLICE=always-malloc
	// (glib reads G_SLICE in a constructor, before main)
	if (!getenv("SIM_REEXEC_DONE")) {
		int pers = personality(0xffffffff);
		if (pers != -1 && !(pers & ADDR_NO_RANDOMIZE)) personality((unsigned long) pers | ADDR_NO_RANDOMIZE);
		setenv("SIM_REEXEC_DONE", "1", 1);
		setenv("G_SLICE", "always-malloc", 1);
		setenv("G_DEBUG", "", 1);
		setenv("MALLOC_PERTURB_", "0", 1);
		execv("/proc/self/exe", argv);
	}
	std::string prop_id, tier = "quick", replay, dump_file, outdir = ".";
	uint64_t seed0 = 1, count = 1, stride = 1, offset = 0, dump_seed = 0, twice_every = 0;
	double deadline = 0;
	bool dump = false;
	for (int i = 1; i < argc; i++) {
		std::string a = argv[i];
		auto nx = [&]() { return std::string(i + 1 < argc ? argv[++i] : ""); };
		if (a == "--prop") prop_id = nx();
		else if (a == "--tier") tier = nx();
		else if (a == "--seed0") seed0 = strtoull(nx().c_str(), nullptr, 10);
		else if (a == "--count") count = strtoull(nx().c_str(), nullptr, 10);
		else if (a == "--stride") stride = strtoull(nx().c_str(), nullptr, 10);
		else if (a == "--offset") offset = strtoull(nx().c_str(), nullptr, 10);
		else if (a == "--outdir") outdir = nx();
		else if (a == "--deadline-s") deadline = atof(nx().c_str());
		else if (a == "--twice-every") twice_every = strtoull(nx().c_str(), nullptr, 10);
		else if (a == "--replay") replay = nx();
		else if (a == "--verbose") sim::g_verbose_log = true;
		else if (a == "--trace") sim::g_trace_sched = true;
		else if (a == "--dump-plan") { dump = true; dump_seed = strtoull(nx().c_str(), nullptr, 10); dump_file = nx(); }
	}
	g_outdir = outdir;
	sim::set_fail_handler(fail_handler);
	{ pthread_t mt; pthread_create(&mt, nullptr, busy_monitor, nullptr); pthread_detach(mt); }
	if (__sanitizer_set_death_callback) __sanitizer_set_death_callback(death_cb);

	if (!replay.empty()) {
		g_replay_mode = true;
		J plan;
		try { plan = J::parse(read_file(replay)); } catch (std::exception &e) { fprintf(stderr, "cannot parse %s: %s\n", replay.c_str(), e.what()); return 2; }
		g_prop_id = plan.gets("property", prop_id);
		Prop *prop = make_prop(g_prop_id);
		if (!prop) { fprintf(stderr, "unknown property %s\n", g_prop_id.c_str()); return 2; }
		uint64_t h = run_one(prop, plan, nullptr, false);
		printf("REPLAY-OK %016llx\n", (unsigned long long) h);
		return 0;
	}
	g_prop_id = prop_id;
	Prop *prop = make_prop(prop_id);
	if (!prop) { fprintf(stderr, "unknown property %s\n", prop_id.c_str()); return 2; }
	if (dump) {
		Rng r(dump_seed * 0x9E3779B97F4A7C15ULL + 0xC0FFEE);
		J plan = prop->generate(r, tier, dump_seed);
		plan.set("property", prop_id); plan.set("seed", (long long) dump_seed); plan.set("tier", tier);
		write_file(dump_file, plan.dump());
		return 0;
	}
	Acc acc;
	double t0 = wall();
	uint64_t done = 0;
	for (uint64_t k = offset; k < count; k += stride) {
		if (deadline > 0 && wall() - t0 > deadline) break;
		uint64_t seed = seed0 + k;
		g_cur_seed = seed;
		Rng r(seed * 0x9E3779B97F4A7C15ULL + 0xC0FFEE);
		J plan = prop->generate(r, tier, seed);
		plan.set("property", prop_id); plan.set("seed", (long long) seed); plan.set("tier", tier);
		printf("START %llu\n", (unsigned long long) seed);
		fflush(stdout);
		uint64_t h = run_one(prop, plan, &acc, true);
		if (twice_every && (done % twice_every) == 0) {
			uint64_t h2 = run_one(prop, plan, &acc, false);
			acc.twice_checked++;
			if (h2 != h) {
				printf("NONDET %llu %016llx %016llx\n", (unsigned long long) seed, (unsigned long long) h, (unsigned long long) h2);
				fflush(stdout);
				_exit(4);
			}
		}
		printf("OK %llu %016llx\n", (unsigned long long) seed, (unsigned long long) h);
		fflush(stdout);
		done++;
	}
	// ---- summary
	J s = J::obj();
	s.set("evaluations", (long long) acc.evals);
	s.set("nontrivial", (long long) acc.nontrivial);
	J dh = J::arr();
	for (uint64_t x : acc.distinct) { char b[24]; snprintf(b, sizeof b, "%016llx", (unsigned long long) x); dh.push(b); }
	s.set("distinct_hashes", dh);
	J sh = J::arr();
	for (uint64_t x : acc.shapes) { char b[24]; snprintf(b, sizeof b, "%016llx", (unsigned long long) x); sh.push(b); }
	s.set("distinct_shapes", sh);
	auto mj = [](const std::map<std::string, int64_t> &m) { J o = J::obj(); for (auto &kv : m) o.set(kv.first, (long long) kv.second); return o; };
	s.set("probes", mj(acc.probes));
	s.set("faults_fired", mj(acc.faults));
	s.set("policies", mj(acc.policies));
	J vf = J::obj(); vf.set("enoent", (long long) sim::g_vfs_fault_fired[1]); vf.set("truncate", (long long) sim::g_vfs_fault_fired[2]); vf.set("eio", (long long) sim::g_vfs_fault_fired[3]);
	vf.set("serial_open_failed", (long long) sim::g_serial_open_failed);
	s.set("file_faults_fired", vf);
	s.set("steps", (long long) acc.steps); s.set("switches", (long long) acc.switches); s.set("sim_us", (long long) acc.sim_us);
	s.set("lock_contended", (long long) acc.contended); s.set("overlap3", (long long) acc.overlap3); s.set("max_tasks", (long long) acc.max_tasks);
	s.set("api_calls", (long long) acc.api_calls); s.set("wire_msgs", (long long) acc.wire_msgs); s.set("uplink_frames", (long long) acc.uplink_frames);
	s.set("decision_points", (long long) acc.decision_points);
	s.set("twice_checked", (long long) acc.twice_checked);
	s.set("samples", acc.samples);
	s.set("rule", prop->rule());
	s.set("wall_s", wall() - t0);
	// lock-order edges with witnesses
	J ed = J::arr();
	const auto &names = sim::lock_names();
	for (auto &kv : sim::order_edges()) {
		J e = J::obj();
		e.set("a", names[(size_t) kv.first.a]); e.set("am", std::string(1, kv.first.am));
		e.set("b", names[(size_t) kv.first.b]); e.set("bm", std::string(1, kv.first.bm));
		e.set("count", (long long) kv.second.count);
		e.set("site_a", sim::sym(kv.second.site_a)); e.set("site_b", sim::sym(kv.second.site_b));
		ed.push(e);
	}
	s.set("lock_order_edges", ed);
	// reach counters by function name
	J reach = J::obj();
	{
		std::map<std::string, long long> byname;
		for (auto &kv : sim::fn_reach()) { std::string n = sim::sym(kv.first); size_t p = n.find("+0x"); if (p != std::string::npos) n = n.substr(0, p); byname[n] += (long long) kv.second; }
		for (auto &kv : byname) reach.set(kv.first, kv.second);
	}
	s.set("fn_reach", reach);
	std::string sp = outdir + "/summary-" + std::to_string(offset) + ".json";
	write_file(sp, s.dump());
	printf("SUMMARY %s\n", sp.c_str());
	fflush(stdout);
	return 0;
}

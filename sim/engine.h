// Plan interpreter: runs one plan (sessions -> phases -> concurrent task op lists + bus events)
// against the real library under the deterministic scheduler, and feeds the property oracle.
#pragma once
#include <stdint.h>
#include <string>
#include <vector>
#include <map>
#include <set>
#include <functional>
#include <deque>
#include "json.h"
#include "prng.h"
#include "sim_core.h"
#include "simbus.h"
#include "lib.h"

struct Engine;

struct OpRec {
	int session = 0, phase = 0, task = 0, idx = 0;
	uint64_t inv_step = 0, ret_step = 0, inv_time = 0, ret_time = 0;
	const J *op = nullptr;
	int64_t ret = 0;
	std::vector<uint8_t> bytes;     // message returned by read ops
	bool has_bytes = false;
	J result;                       // canonical getter result
	size_t wire_before = 0, wire_after = 0;
	size_t queue_cs = 0;            // critical-section index on the queue mutex (linearisation point) for read ops
};

// A property = plan generator + oracle.
struct Prop {
	virtual ~Prop() {}
	virtual const char *id() const = 0;
	virtual J generate(Rng &r, const std::string &tier, uint64_t seed) = 0;
	virtual void attach(Engine &) {}
	virtual void on_session_start(Engine &, int /*session*/, int /*ret*/) {}
	virtual void before_stop(Engine &, int /*session*/) {}
	virtual void on_session_stop(Engine &, int /*session*/) {}
	virtual void after_op(Engine &, OpRec &) {}
	virtual void at_quiescence(Engine &, int /*session*/, int /*phase*/) {}
	virtual void at_end(Engine &) {}
	// facts of this run for the evidence: "nontrivial" (interest predicate), "shape" (plan-shape hash), "probes" {name:count}
	virtual void coverage(Engine &, J &facts) { (void) facts; }
	// static description for the evidence file
	virtual std::string rule() const { return ""; }
	// violation classes this property does not judge (the run is skipped, not reported)
	virtual bool owns(const std::string &cls) const { (void) cls; return true; }
};

Prop *make_prop(const std::string &id);

struct OpStart { int task; const J *op; uint64_t inv_step; int64_t inv_time_s; uint64_t inv_time_us; bool matched = false; bool returned = false; uint64_t ret_step = 0; };

struct Retained;

struct Engine {
	J plan;
	std::vector<OpStart> starts;           // every ll/hl op at the moment its call is invoked
	Prop *prop = nullptr;
	bus::Bus bus;
	std::vector<OpRec> oplog;
	int cur_session = 0, cur_phase = 0;
	bool debug_mode = false, running = false;
	int start_ret = -1;
	std::string cfgdir;
	std::map<std::string, int64_t> probes;
	bool in_replay = false;
	int64_t live_after_first_stop = -1, live_blocks_after_first_stop = -1;
	std::vector<int64_t> live_after_stop;
	uint64_t apis = 0;
	std::vector<int> phase_tasks;
	std::deque<J> drain_ops;
	std::vector<size_t> session_wire_begin, session_wire_end;
	std::vector<Retained *> retained;      // query results kept across later state changes and bidib_stop (C17)
	void recheck_retained(const char *when);
	void release_retained();
	size_t loop_pos = 0;

	explicit Engine(const J &p) : plan(p) {}
	void run();                                         // sim::run_begin .. run_end
	[[noreturn]] void violate(const std::string &cls, const std::string &site, const std::string &detail);
	void probe(const std::string &n, int64_t k = 1) { probes[n] += k; }

	// helpers for oracles
	void flush_and_quiesce(bool flush = true);
	bool wait_quiescent(uint64_t max_ms);
	void exec_op(const J &op, int task, int idx);
	int do_start(const J &start);
	void do_stop();
	void setup_bus();
	void install_config(const J &cfg);
	void run_phase(const J &ph);
	void run_bus_events(const J &events);
	void topo_event(const J &event);
};

extern Engine *g_engine;

// helpers shared by generators
J sched_json(Rng &r, const std::string &tier, int n_tasks_hint, bool want_fn_yield);
std::vector<uint8_t> j_bytes(const J &a);       // JSON int array -> bytes
J bytes_j(const std::vector<uint8_t> &v);
t_bidib_node_address j_node(const J &a);

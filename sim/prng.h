// Deterministic PRNG used for every choice of the simulator (xoshiro256** seeded by splitmix64).
#pragma once
#include <stdint.h>
#include <stddef.h>

struct Rng {
	uint64_t s[4];
	static uint64_t splitmix(uint64_t &x) {
		uint64_t z = (x += 0x9e3779b97f4a7c15ULL);
		z = (z ^ (z >> 30)) * 0xbf58476d1ce4e5b9ULL;
		z = (z ^ (z >> 27)) * 0x94d049bb133111ebULL;
		return z ^ (z >> 31);
	}
	Rng() { seed(0); }
	explicit Rng(uint64_t sd) { seed(sd); }
	void seed(uint64_t sd) { for (int i = 0; i < 4; i++) s[i] = splitmix(sd); }
	// derive an independent stream
	Rng fork(uint64_t tag) { uint64_t x = next() ^ (tag * 0xd6e8feb86659fd93ULL); return Rng(x); }
	static inline uint64_t rotl(uint64_t x, int k) { return (x << k) | (x >> (64 - k)); }
	uint64_t next() {
		uint64_t r = rotl(s[1] * 5, 7) * 9, t = s[1] << 17;
		s[2] ^= s[0]; s[3] ^= s[1]; s[1] ^= s[2]; s[0] ^= s[3]; s[2] ^= t; s[3] = rotl(s[3], 45);
		return r;
	}
	// uniform in [0,n) ; n>0
	uint64_t below(uint64_t n) { return n <= 1 ? 0 : next() % n; }
	// uniform in [lo,hi]
	int64_t range(int64_t lo, int64_t hi) { return hi <= lo ? lo : lo + (int64_t) below((uint64_t) (hi - lo + 1)); }
	bool chance(uint32_t permille) { return below(1000) < permille; }
	bool coin() { return next() & 1; }
	uint8_t byte() { return (uint8_t) (next() >> 24); }
	template <class V> auto &pick(V &v) { return v[below(v.size())]; }
};

static inline uint64_t fnv1a(uint64_t h, const void *p, size_t n) {
	const uint8_t *b = (const uint8_t *) p;
	for (size_t i = 0; i < n; i++) { h ^= b[i]; h *= 0x100000001b3ULL; }
	return h;
}
static inline uint64_t fnv1a_u64(uint64_t h, uint64_t v) { return fnv1a(h, &v, 8); }
#define FNV_INIT 0xcbf29ce484222325ULL

// Catalogue of low-level send functions: how to call them from a plan op, how to draw valid
// arguments, and the reference encoding (type code + data bytes) of an accepted call.
#pragma once
#include <stdint.h>
#include <vector>
#include <string>
#include <string.h>
#include "prng.h"
#include "lib.h"

namespace cat {

typedef std::vector<uint8_t> Bytes;

struct LL {
	const char *name;
	uint8_t type;
	void (*call)(t_bidib_node_address, const Bytes &);
	void (*gen)(Rng &, Bytes &);                 // valid arguments
	void (*enc)(const Bytes &, Bytes &);         // args -> expected data bytes
	bool to_interface_only;
};

inline uint8_t edge_byte(Rng &r) {
	switch (r.below(8)) { case 0: return 0xFE; case 1: return 0xFD; case 2: return 0x00; case 3: return 0xFF; case 4: return 0x7F; default: return r.byte(); }
}
inline void gen_n(Rng &r, Bytes &a, size_t n) { a.clear(); for (size_t i = 0; i < n; i++) a.push_back(edge_byte(r)); }
inline void enc_id(const Bytes &a, Bytes &d) { d = a; }

#define NA t_bidib_node_address
#define G0 [](Rng &, Bytes &a) { a.clear(); }
#define GN(n) [](Rng &r, Bytes &a) { gen_n(r, a, n); }
#define E0 [](const Bytes &, Bytes &d) { d.clear(); }

static const LL table[] = {
	{"sys_get_magic", MSG_SYS_GET_MAGIC, [](NA n, const Bytes &) { bidib_send_sys_get_magic(n, 0); }, G0, E0, false},
	{"sys_get_p_version", MSG_SYS_GET_P_VERSION, [](NA n, const Bytes &) { bidib_send_sys_get_p_version(n, 0); }, G0, E0, false},
	{"sys_get_unique_id", MSG_SYS_GET_UNIQUE_ID, [](NA n, const Bytes &) { bidib_send_sys_get_unique_id(n, 0); }, G0, E0, false},
	{"sys_get_sw_version", MSG_SYS_GET_SW_VERSION, [](NA n, const Bytes &) { bidib_send_sys_get_sw_version(n, 0); }, G0, E0, false},
	{"sys_get_error", MSG_SYS_GET_ERROR, [](NA n, const Bytes &) { bidib_send_sys_get_error(n, 0); }, G0, E0, false},
	{"sys_ping", MSG_SYS_PING, [](NA n, const Bytes &a) { bidib_send_sys_ping(n, a[0], 0); }, GN(1), enc_id, false},
	{"sys_identify", MSG_SYS_IDENTIFY, [](NA n, const Bytes &a) { bidib_send_sys_identify(n, a[0], 0); },
	 [](Rng &r, Bytes &a) { a = {(uint8_t) r.below(2)}; }, enc_id, false},
	{"nodetab_getall", MSG_NODETAB_GETALL, [](NA n, const Bytes &) { bidib_send_nodetab_getall(n, 0); }, G0, E0, false},
	{"nodetab_getnext", MSG_NODETAB_GETNEXT, [](NA n, const Bytes &) { bidib_send_nodetab_getnext(n, 0); }, G0, E0, false},
	{"get_pkt_capacity", MSG_GET_PKT_CAPACITY, [](NA n, const Bytes &) { bidib_send_get_pkt_capacity(n, 0); }, G0, E0, false},
	{"node_changed_ack", MSG_NODE_CHANGED_ACK, [](NA n, const Bytes &a) { bidib_send_node_changed_ack(n, a[0], 0); }, GN(1), enc_id, false},
	{"sys_clock", MSG_SYS_CLOCK, [](NA n, const Bytes &a) { bidib_send_sys_clock(n, a[0], a[1], a[2], a[3], 0); },
	 [](Rng &r, Bytes &a) { a = {(uint8_t) r.range(0, 59), (uint8_t) r.range(128, 151), (uint8_t) r.range(64, 70), (uint8_t) r.range(192, 223)}; }, enc_id, false},
	{"feature_getall", MSG_FEATURE_GETALL, [](NA n, const Bytes &) { bidib_send_feature_getall(n, 0); }, G0, E0, false},
	{"feature_getnext", MSG_FEATURE_GETNEXT, [](NA n, const Bytes &) { bidib_send_feature_getnext(n, 0); }, G0, E0, false},
	{"feature_get", MSG_FEATURE_GET, [](NA n, const Bytes &a) { bidib_send_feature_get(n, a[0], 0); }, GN(1), enc_id, false},
	{"feature_set", MSG_FEATURE_SET, [](NA n, const Bytes &a) { bidib_send_feature_set(n, a[0], a[1], 0); }, GN(2), enc_id, false},
	{"vendor_enable", MSG_VENDOR_ENABLE,
	 [](NA n, const Bytes &a) { t_bidib_unique_id_mod u = {a[0], a[1], a[2], a[3], a[4], a[5], a[6]}; bidib_send_vendor_enable(n, u, 0); }, GN(7), enc_id, false},
	{"vendor_disable", MSG_VENDOR_DISABLE, [](NA n, const Bytes &) { bidib_send_vendor_disable(n, 0); }, G0, E0, false},
	{"vendor_set", MSG_VENDOR_SET,
	 [](NA n, const Bytes &a) {
		 // args: [name_len, name..., value...]
		 Bytes nm(a.begin() + 1, a.begin() + 1 + a[0]), vl(a.begin() + 1 + a[0], a.end());
		 t_bidib_vendor_data v; v.name_length = (uint8_t) nm.size(); v.name = nm.data(); v.value_length = (uint8_t) vl.size(); v.value = vl.data();
		 bidib_send_vendor_set(n, v, 0);
	 },
	 [](Rng &r, Bytes &a) {
		 size_t tot = r.chance(150) ? 119 : (size_t) r.range(0, 40);
		 size_t nl = (size_t) r.range(0, (int64_t) tot);
		 a.clear(); a.push_back((uint8_t) nl);
		 for (size_t i = 0; i < tot; i++) a.push_back(edge_byte(r));
	 },
	 [](const Bytes &a, Bytes &d) {
		 size_t nl = a[0]; d.clear(); d.push_back((uint8_t) nl);
		 for (size_t i = 0; i < nl; i++) d.push_back(a[1 + i]);
		 d.push_back((uint8_t) (a.size() - 1 - nl));
		 for (size_t i = 1 + nl; i < a.size(); i++) d.push_back(a[i]);
	 }, false},
	{"vendor_get", MSG_VENDOR_GET,
	 [](NA n, const Bytes &a) { bidib_send_vendor_get(n, (uint8_t) a.size(), a.data(), 0); },
	 [](Rng &r, Bytes &a) { size_t nl = r.chance(150) ? 120 : (size_t) r.range(0, 30); gen_n(r, a, nl); },
	 [](const Bytes &a, Bytes &d) { d.clear(); d.push_back((uint8_t) a.size()); d.insert(d.end(), a.begin(), a.end()); }, false},
	{"string_set", MSG_STRING_SET,
	 [](NA n, const Bytes &a) { bidib_send_string_set(n, a[0], a[1], (uint8_t) (a.size() - 2), a.data() + 2, 0); },
	 [](Rng &r, Bytes &a) { size_t sl = r.chance(150) ? 118 : (size_t) r.range(0, 30); gen_n(r, a, sl + 2); },
	 [](const Bytes &a, Bytes &d) { d.clear(); d.push_back(a[0]); d.push_back(a[1]); d.push_back((uint8_t) (a.size() - 2)); d.insert(d.end(), a.begin() + 2, a.end()); }, false},
	{"string_get", MSG_STRING_GET, [](NA n, const Bytes &a) { bidib_send_string_get(n, a[0], a[1], 0); }, GN(2), enc_id, false},
	{"bm_get_range", MSG_BM_GET_RANGE, [](NA n, const Bytes &a) { bidib_send_bm_get_range(n, a[0], a[1], 0); },
	 [](Rng &r, Bytes &a) { a = {(uint8_t) (r.below(32) * 8), (uint8_t) (r.below(32) * 8)}; }, enc_id, false},
	{"bm_get_range_with_action_id", MSG_BM_GET_RANGE, [](NA n, const Bytes &a) { bidib_send_bm_get_range(n, a[0], a[1], 41); },
	 [](Rng &r, Bytes &a) { a = {(uint8_t) (r.below(32) * 8), (uint8_t) (r.below(32) * 8)}; }, enc_id, false},
	{"bm_mirror_multiple", MSG_BM_MIRROR_MULTIPLE,
	 [](NA n, const Bytes &a) { bidib_send_bm_mirror_multiple(n, a[0], a[1], a.data() + 2, 0); },
	 [](Rng &r, Bytes &a) { size_t sz = (size_t) r.range(1, 16) * 8; a.clear(); a.push_back((uint8_t) (r.below(32) * 8)); a.push_back((uint8_t) sz); for (size_t i = 0; i < sz / 8; i++) a.push_back(edge_byte(r)); },
	 enc_id, false},
	{"bm_mirror_occ", MSG_BM_MIRROR_OCC, [](NA n, const Bytes &a) { bidib_send_bm_mirror_occ(n, a[0], 0); }, GN(1), enc_id, false},
	{"bm_mirror_free", MSG_BM_MIRROR_FREE, [](NA n, const Bytes &a) { bidib_send_bm_mirror_free(n, a[0], 0); }, GN(1), enc_id, false},
	{"bm_addr_get_range", MSG_BM_ADDR_GET_RANGE, [](NA n, const Bytes &a) { bidib_send_bm_addr_get_range(n, a[0], a[1], 0); },
	 [](Rng &r, Bytes &a) { uint8_t x = edge_byte(r), y = edge_byte(r); a = {std::min(x, y), std::max(x, y)}; }, enc_id, false},
	{"bm_get_confidence", MSG_BM_GET_CONFIDENCE, [](NA n, const Bytes &) { bidib_send_bm_get_confidence(n, 0); }, G0, E0, false},
	{"bm_mirror_position", MSG_BM_MIRROR_POSITION, [](NA n, const Bytes &a) { bidib_send_msg_bm_mirror_position(n, a[0], a[1], a[2], 0); }, GN(3), enc_id, false},
	{"boost_on", MSG_BOOST_ON, [](NA n, const Bytes &a) { bidib_send_boost_on(n, a[0], 0); }, [](Rng &r, Bytes &a) { a = {(uint8_t) r.below(2)}; }, enc_id, false},
	{"boost_off", MSG_BOOST_OFF, [](NA n, const Bytes &a) { bidib_send_boost_off(n, a[0], 0); }, [](Rng &r, Bytes &a) { a = {(uint8_t) r.below(2)}; }, enc_id, false},
	{"boost_query", MSG_BOOST_QUERY, [](NA n, const Bytes &) { bidib_send_boost_query(n, 0); }, G0, E0, false},
	{"accessory_set", MSG_ACCESSORY_SET, [](NA n, const Bytes &a) { bidib_send_accessory_set(n, a[0], a[1], 0); },
	 [](Rng &r, Bytes &a) { a = {(uint8_t) r.below(128), (uint8_t) r.below(128)}; }, enc_id, false},
	{"accessory_get", MSG_ACCESSORY_GET, [](NA n, const Bytes &a) { bidib_send_accessory_get(n, a[0], 0); },
	 [](Rng &r, Bytes &a) { a = {(uint8_t) r.below(128)}; }, enc_id, false},
	{"accessory_para_set_switch_time", MSG_ACCESSORY_PARA_SET, [](NA n, const Bytes &a) { bidib_send_accessory_para_set_switch_time(n, a[0], a[1], 0); },
	 [](Rng &r, Bytes &a) { a = {(uint8_t) r.below(128), edge_byte(r)}; },
	 [](const Bytes &a, Bytes &d) { d = {a[0], BIDIB_ACCESSORY_SWITCH_TIME, a[1]}; }, false},
	{"accessory_para_get", MSG_ACCESSORY_PARA_GET, [](NA n, const Bytes &a) { bidib_send_accessory_para_get(n, a[0], a[1], 0); },
	 [](Rng &r, Bytes &a) { a = {(uint8_t) r.below(128), (uint8_t) r.range(251, 255)}; }, enc_id, false},
	{"lc_output", MSG_LC_OUTPUT, [](NA n, const Bytes &a) { bidib_send_lc_output(n, a[0], a[1], a[2], 0); }, GN(3), enc_id, false},
	{"lc_port_query", MSG_LC_PORT_QUERY, [](NA n, const Bytes &a) { bidib_send_lc_port_query(n, a[0], a[1], 0); }, GN(2), enc_id, false},
	{"lc_port_query_all", MSG_LC_PORT_QUERY_ALL,
	 [](NA n, const Bytes &a) { t_bidib_port_query_params q = {a[0], a[1], {a[2], a[3], a[4], a[5]}}; bidib_send_lc_port_query_all(n, q, 0); }, GN(6), enc_id, false},
	{"lc_configx_get", MSG_LC_CONFIGX_GET, [](NA n, const Bytes &a) { bidib_send_lc_configx_get(n, a[0], a[1], 0); }, GN(2), enc_id, false},
	{"lc_configx_get_all", MSG_LC_CONFIGX_GET_ALL,
	 [](NA n, const Bytes &a) { t_bidib_port_query_address_range q = {a[2], a[3], a[4], a[5]}; bidib_send_lc_configx_get_all(n, a[0], a[1], q, 0); }, GN(6), enc_id, false},
	{"lc_macro_handle", MSG_LC_MACRO_HANDLE, [](NA n, const Bytes &a) { bidib_send_lc_macro_handle(n, a[0], a[1], 0); },
	 [](Rng &r, Bytes &a) { uint8_t op = r.coin() ? (uint8_t) r.below(2) : (uint8_t) r.range(252, 255); a = {edge_byte(r), op}; }, enc_id, false},
	{"lc_macro_set", MSG_LC_MACRO_SET,
	 [](NA n, const Bytes &a) { t_bidib_macro_params p = {a[0], a[1], a[2], a[3], a[4], a[5]}; bidib_send_lc_macro_set(n, p, 0); }, GN(6), enc_id, false},
	{"lc_macro_get", MSG_LC_MACRO_GET, [](NA n, const Bytes &a) { bidib_send_lc_macro_get(n, a[0], a[1], 0); }, GN(2), enc_id, false},
	{"lc_macro_para_set", MSG_LC_MACRO_PARA_SET,
	 [](NA n, const Bytes &a) { t_bidib_macro_params p = {a[0], a[1], a[2], a[3], a[4], a[5]}; bidib_send_lc_macro_para_set(n, p, 0); }, GN(6), enc_id, false},
	{"lc_macro_para_get", MSG_LC_MACRO_PARA_GET, [](NA n, const Bytes &a) { bidib_send_lc_macro_para_get(n, a[0], a[1], 0); }, GN(2), enc_id, false},
	{"cs_allocate", MSG_CS_ALLOCATE, [](NA n, const Bytes &) { bidib_send_cs_allocate(n, 0); }, G0, [](const Bytes &, Bytes &d) { d = {0}; }, false},
	{"cs_set_state", MSG_CS_SET_STATE, [](NA n, const Bytes &a) { bidib_send_cs_set_state(n, a[0], 0); },
	 [](Rng &r, Bytes &a) { static const uint8_t ok[] = {0, 1, 2, 3, 4, 8, 9, 0x0D, 0xFF}; a = {ok[r.below(9)]}; }, enc_id, false},
	{"cs_drive", MSG_CS_DRIVE,
	 [](NA n, const Bytes &a) {
		 t_bidib_cs_drive_mod p; p.dcc_address.addrl = a[0]; p.dcc_address.addrh = a[1]; p.dcc_address.type = 0; p.dcc_format = a[2]; p.active = a[3];
		 p.speed = a[4]; p.function1 = a[5]; p.function2 = a[6]; p.function3 = a[7]; p.function4 = a[8];
		 bidib_send_cs_drive(n, p, 0);
	 },
	 [](Rng &r, Bytes &a) {
		 static const uint8_t fm[] = {0, 2, 3};
		 a = {edge_byte(r), edge_byte(r), fm[r.below(3)], (uint8_t) r.below(64), edge_byte(r), (uint8_t) r.below(32), edge_byte(r), edge_byte(r), edge_byte(r)};
	 }, enc_id, false},
	{"cs_accessory", MSG_CS_ACCESSORY,
	 [](NA n, const Bytes &a) { t_bidib_cs_accessory_mod p; p.dcc_address.addrl = a[0]; p.dcc_address.addrh = a[1]; p.dcc_address.type = 0; p.data = a[2]; p.time = a[3]; bidib_send_cs_accessory(n, p, 0); },
	 GN(4), enc_id, false},
	{"cs_pom", MSG_CS_POM,
	 [](NA n, const Bytes &a) {
		 t_bidib_cs_pom_mod p; p.dcc_address.addrl = a[0]; p.dcc_address.addrh = a[1]; p.dcc_address.type = 0; p.addrxl = a[2]; p.addrxh = a[3]; p.mid = a[4]; p.opcode = a[5];
		 p.cv_addrl = a[6]; p.cv_addrh = a[7]; p.cv_addrx = a[8]; p.data0 = a[9]; p.data1 = a[10]; p.data2 = a[11]; p.data3 = a[12];
		 bidib_send_cs_pom(n, p, 0);
	 },
	 [](Rng &r, Bytes &a) {
		 static const uint8_t op[] = {0, 1, 2, 3, 0x43, 0x47, 0x80, 0x81, 0x82, 0x83, 0x87, 0x8B, 0x8F};
		 gen_n(r, a, 13); a[5] = op[r.below(13)];
	 }, enc_id, false},
	{"cs_bin_state", MSG_CS_BIN_STATE,
	 [](NA n, const Bytes &a) { t_bidib_bin_state_mod p; p.dcc_address.addrl = a[0]; p.dcc_address.addrh = a[1]; p.dcc_address.type = 0; p.bin_numl = a[2]; p.bin_numh = a[3]; p.data = a[4]; bidib_send_cs_bin_state(n, p, 0); },
	 [](Rng &r, Bytes &a) { gen_n(r, a, 5); a[4] = (uint8_t) r.below(2); }, enc_id, false},
	{"cs_prog", MSG_CS_PROG,
	 [](NA n, const Bytes &a) { t_bidib_cs_prog_mod p = {a[0], a[1], a[2], a[3]}; bidib_send_cs_prog(n, p, 0); },
	 [](Rng &r, Bytes &a) { gen_n(r, a, 4); a[0] = (uint8_t) r.below(5); }, enc_id, false},
	{"cs_rcplus_ping", MSG_CS_RCPLUS, [](NA n, const Bytes &a) { bidib_send_cs_rcplus_ping(n, a[0], 0); }, GN(1),
	 [](const Bytes &a, Bytes &d) { d = {RC_PING, a[0]}; }, false},
	{"fw_update_op_enter", MSG_FW_UPDATE_OP,
	 [](NA n, const Bytes &a) { t_bidib_unique_id_mod u = {a[0], a[1], a[2], a[3], a[4], a[5], a[6]}; bidib_send_fw_update_op_enter(n, u, 0); }, GN(7),
	 [](const Bytes &a, Bytes &d) { d.clear(); d.push_back(BIDIB_MSG_FW_UPDATE_OP_ENTER); d.insert(d.end(), a.begin(), a.end()); }, false},
	{"fw_update_op_data", MSG_FW_UPDATE_OP,
	 [](NA n, const Bytes &a) { bidib_send_fw_update_op_data(n, (uint8_t) a.size(), a.data(), 0); },
	 [](Rng &r, Bytes &a) {
		 size_t sl = r.chance(150) ? 121 : (size_t) r.range(0, 40);
		 a.clear();
		 while (a.size() < sl) { uint8_t b = edge_byte(r); if (b != 0x20 && b != 0x09 && b != 0x0D && b != 0x0A) a.push_back(b); }
	 },
	 [](const Bytes &a, Bytes &d) { d.clear(); d.push_back(BIDIB_MSG_FW_UPDATE_OP_DATA); d.insert(d.end(), a.begin(), a.end()); }, false},
	// --- remaining functions of the public low-level API (MSG_LC_CONFIGX_SET: [port0, port1, key1, value1, ... keyN, valueN])
	{"lc_configx_set", MSG_LC_CONFIGX_SET,
	 [](NA n, const Bytes &a) { Bytes p(a.begin() + 2, a.end()); bidib_send_lc_configx_set(n, a[0], a[1], (uint8_t) (p.size() / 2), p.data(), 0); },
	 [](Rng &r, Bytes &a) { size_t np = (size_t) r.range(1, 8); gen_n(r, a, 2 + 2 * np); }, enc_id, false},
	{"accessory_para_set_opmode", MSG_ACCESSORY_PARA_SET, [](NA n, const Bytes &a) { bidib_send_accessory_para_set_opmode(n, a[0], a[1], 0); },
	 [](Rng &r, Bytes &a) { a = {(uint8_t) r.below(128), (uint8_t) r.below(128)}; },
	 [](const Bytes &a, Bytes &d) { d = {a[0], 251 /* PARA_OPMODE */, a[1]}; }, false},
	{"accessory_para_set_startup", MSG_ACCESSORY_PARA_SET, [](NA n, const Bytes &a) { bidib_send_accessory_para_set_startup(n, a[0], a[1], 0); },
	 [](Rng &r, Bytes &a) { a = {(uint8_t) r.below(128), (uint8_t) (r.chance(250) ? 254 + r.below(2) : r.below(128))}; },
	 [](const Bytes &a, Bytes &d) { d = {a[0], 252 /* PARA_STARTUP */, a[1]}; }, false},
	{"accessory_para_set_macromap", MSG_ACCESSORY_PARA_SET,
	 [](NA n, const Bytes &a) { Bytes m(a.begin() + 1, a.end()); bidib_send_accessory_para_set_macromap(n, a[0], (uint8_t) m.size(), m.data(), 0); },
	 [](Rng &r, Bytes &a) { size_t k = (size_t) r.range(1, 16); a.clear(); a.push_back((uint8_t) r.below(128)); for (size_t i = 0; i + 1 < k; i++) a.push_back((uint8_t) r.below(255)); a.push_back(0xFF); },
	 [](const Bytes &a, Bytes &d) { d.clear(); d.push_back(a[0]); d.push_back(253 /* PARA_MACROMAP */); d.insert(d.end(), a.begin() + 1, a.end()); }, false},
	{"cs_rcplus_get_id", MSG_CS_RCPLUS, [](NA n, const Bytes &) { bidib_send_cs_rcplus_get_id(n, 0); }, G0, [](const Bytes &, Bytes &d) { d = {2 /* RC_GET_TID */}; }, false},
	{"cs_rcplus_set_id", MSG_CS_RCPLUS,
	 [](NA n, const Bytes &a) { t_rcplus_tid t; t.cid.mun_0 = a[0]; t.cid.mun_1 = a[1]; t.cid.mun_2 = a[2]; t.cid.mun_3 = a[3]; t.cid.mid = a[4]; t.sid = a[5]; bidib_send_cs_rcplus_set_id(n, t, 0); }, GN(6),
	 [](const Bytes &a, Bytes &d) { d.clear(); d.push_back(3 /* RC_SET_TID */); d.insert(d.end(), a.begin(), a.end()); }, false},
	{"cs_rcplus_ping_once_p0", MSG_CS_RCPLUS, [](NA n, const Bytes &) { bidib_send_cs_rcplus_ping_once_p0(n, 0); }, G0, [](const Bytes &, Bytes &d) { d = {4}; }, false},
	{"cs_rcplus_ping_once_p1", MSG_CS_RCPLUS, [](NA n, const Bytes &) { bidib_send_cs_rcplus_ping_once_p1(n, 0); }, G0, [](const Bytes &, Bytes &d) { d = {5}; }, false},
	{"cs_rcplus_bind", MSG_CS_RCPLUS,
	 [](NA n, const Bytes &a) { t_rcplus_unique_id u; u.mun_0 = a[0]; u.mun_1 = a[1]; u.mun_2 = a[2]; u.mun_3 = a[3]; u.mid = a[4]; bidib_send_cs_rcplus_bind(n, u, a[5], a[6], 0); }, GN(7),
	 [](const Bytes &a, Bytes &d) { d.clear(); d.push_back(0 /* RC_BIND */); d.insert(d.end(), a.begin(), a.end()); }, false},
	{"cs_rcplus_find_p0", MSG_CS_RCPLUS,
	 [](NA n, const Bytes &a) { t_rcplus_unique_id u; u.mun_0 = a[0]; u.mun_1 = a[1]; u.mun_2 = a[2]; u.mun_3 = a[3]; u.mid = a[4]; bidib_send_cs_rcplus_find_p0(n, u, 0); }, GN(5),
	 [](const Bytes &a, Bytes &d) { d.clear(); d.push_back(6 /* RC_FIND | P0 */); d.insert(d.end(), a.begin(), a.end()); }, false},
	{"cs_rcplus_find_p1", MSG_CS_RCPLUS,
	 [](NA n, const Bytes &a) { t_rcplus_unique_id u; u.mun_0 = a[0]; u.mun_1 = a[1]; u.mun_2 = a[2]; u.mun_3 = a[3]; u.mid = a[4]; bidib_send_cs_rcplus_find_p1(n, u, 0); }, GN(5),
	 [](const Bytes &a, Bytes &d) { d.clear(); d.push_back(7 /* RC_FIND | P1 */); d.insert(d.end(), a.begin(), a.end()); }, false},
	{"fw_update_op_exit", MSG_FW_UPDATE_OP, [](NA n, const Bytes &) { bidib_send_fw_update_op_exit(n, 0); }, G0, [](const Bytes &, Bytes &d) { d = {0x01}; }, false},
	{"fw_update_op_setdest", MSG_FW_UPDATE_OP, [](NA n, const Bytes &a) { bidib_send_fw_update_op_setdest(n, a[0], 0); },
	 [](Rng &r, Bytes &a) { a = {(uint8_t) r.below(2)}; }, [](const Bytes &a, Bytes &d) { d = {0x02, a[0]}; }, false},
	{"fw_update_op_done", MSG_FW_UPDATE_OP, [](NA n, const Bytes &) { bidib_send_fw_update_op_done(n, 0); }, G0, [](const Bytes &, Bytes &d) { d = {0x04}; }, false},
	{"sys_enable", MSG_SYS_ENABLE, [](NA, const Bytes &) { bidib_send_sys_enable(0); }, G0, E0, true},
	{"sys_disable", MSG_SYS_DISABLE, [](NA, const Bytes &) { bidib_send_sys_disable(0); }, G0, E0, true},
};
static const size_t table_n = sizeof(table) / sizeof(table[0]);

inline const LL *find(const std::string &name) {
	for (size_t i = 0; i < table_n; i++) if (name == table[i].name) return &table[i];
	return nullptr;
}

#undef NA
#undef G0
#undef GN
#undef E0

}  // namespace cat

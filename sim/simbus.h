// SimBus: executable model of the BiDiB system on the other end of the serial line.
// Node tree, per-node request handling, spontaneous traffic, transport faults.
// Written from the BiDiB specification; bidib_messages.h is used for numeric codes only.
#pragma once
#include <array>
#include <stdint.h>
#include <vector>
#include <deque>
#include <map>
#include <set>
#include <string>
#include <functional>
#include <algorithm>
#include "refcodec.h"
#include "sim_core.h"
extern "C" {
#include "include/definitions/bidib_messages.h"
}

namespace bus {

struct Node {
	std::vector<uint8_t> addr;           // path of local addresses ({} = interface / root)
	uint8_t uid[7] = {0};
	std::vector<std::pair<uint8_t, uint8_t>> features;
	std::map<uint8_t, uint8_t> feature_override;   // FEATURE_SET n -> answered with this value instead
	int parent = -1;
	std::vector<int> children;
	bool present = true;
	uint8_t tx_seq = 1;                  // next uplink sequence number
	uint8_t tab_version = 1;
	int tab_iter = 0, feat_iter = 0;
	bool enum_active = false, enum_dirty = false;   // node table read-out in progress / table changed meanwhile
	uint8_t pkt_capacity = 64;
	uint8_t cs_state = 0, boost_state = 0;
	uint64_t last_start_us = 0;          // frames of one node keep their order on the wire
	bool is_interface() const { return uid[0] & 0x80; }
	uint32_t key() const { uint32_t k = 0; for (size_t i = 0; i < 3; i++) k = (k << 8) | (i < addr.size() ? addr[i] : 0); return k; }
};

struct Fault { std::string kind; int64_t a = 0, b = 0; };
inline J fault_json(const Fault &f) { J j = J::obj(); j.set("kind", f.kind); if (f.a) j.set("a", (long long) f.a); if (f.b) j.set("b", (long long) f.b); return j; }
inline Fault fault_from(const J &j) { Fault f; f.kind = j.gets("kind"); f.a = j.geti("a"); f.b = j.geti("b"); return f; }

struct UpFrame {
	uint64_t id = 0;
	std::vector<uint8_t> bytes;
	std::vector<uint64_t> at;            // absolute ready time per byte
	size_t pos = 0;
	std::vector<ref::Msg> msgs;          // intended content (empty for raw noise)
	int node = -1;
	bool is_answer = false;
	bool corrupted = false;              // deliberately damaged: must have no effect
	uint64_t enq_step = 0, first_read_step = 0, last_read_step = 0, processed_step = 0;
	uint64_t enq_time = 0, last_read_time = 0;
	bool processed = false;
	int tag = 0;                         // plan-level tag for oracles
};

struct WireRec {
	uint64_t step = 0, time_us = 0;
	int task = -1;
	size_t pkt_index = 0, pkt_payload = 0, pkt_msgs = 0, idx_in_pkt = 0;
	uint64_t write_call = 0;
	ref::Msg msg;
};

struct Bus {
	std::vector<Node> nodes;
	std::deque<UpFrame> pending;          // sorted by start time; read from front
	std::vector<UpFrame> done;            // fully read frames (history)
	ref::DownDecoder dec;
	std::vector<WireRec> wire;
	std::vector<uint8_t> wire_raw;
	std::vector<uint8_t> delivered;       // every byte handed to the receiver, in order
	uint64_t write_calls = 0, reads = 0, empty_polls_since_byte = 0, bytes_delivered = 0;
	uint64_t frame_seq = 0, answer_ordinal = 0, pkt_count = 0;
	std::map<uint64_t, Fault> answer_faults;    // by answer ordinal
	std::map<uint64_t, uint64_t> slow_writes;   // write call ordinal -> sleep us inside the callback
	uint64_t resp_delay_us = 1000;
	bool auto_answer = true;
	bool answers_enabled = true;
	std::map<std::string, uint64_t> fired;       // fault kind -> times it actually fired
	std::map<int, uint64_t> answered_types;
	std::set<int> drop_answer_types;                              // answers of these types are never delivered (until the faults stop)
	std::map<int, std::pair<uint64_t, uint64_t>> type_delays;   // answer type -> (from the n-th answer of that type on, extra delay in us): a slow node
	int receiver_task = -1;
	uint64_t max_write = 0;

	// oracle hooks
	std::function<void(const WireRec &)> on_wire;
	std::function<void(const uint8_t *, int32_t)> on_write_raw;
	std::function<void(UpFrame &)> on_processed;      // frame known to be fully processed by the receiver
	std::function<void(UpFrame &)> on_delivered;      // last byte of frame just handed to the receiver
	std::vector<std::array<uint64_t, 3>> type_dup_once;          // (answer type, n, same/next sequence number): the n-th answer of that type is sent twice
	bool restart_count_real = false;
	bool overtakable_next = false;
	std::vector<std::array<uint64_t, 3>> type_delay_once;        // (answer type, n, extra us): only the n-th answer of that type is late, so the next one overtakes it
	std::function<bool(Node &, const ref::Msg &)> on_request;   // return true to suppress default answer

	// ------------------------------------------------ topology
	int add_node(const std::vector<uint8_t> &addr, const uint8_t uid[7]) {
		Node n; n.addr = addr; for (int i = 0; i < 7; i++) n.uid[i] = uid[i];
		int idx = (int) nodes.size();
		if (!addr.empty()) {
			std::vector<uint8_t> pa(addr.begin(), addr.end() - 1);
			n.parent = -1;       // (the parent may be absent from the bus at the moment: present or not)
			for (size_t i = 0; i < nodes.size(); i++) if (nodes[i].addr == pa) n.parent = (int) i;
		}
		nodes.push_back(n);
		if (nodes[(size_t) idx].parent >= 0) nodes[(size_t) nodes[(size_t) idx].parent].children.push_back(idx);
		return idx;
	}
	int find(const std::vector<uint8_t> &addr) const {
		for (size_t i = 0; i < nodes.size(); i++) if (nodes[i].present && nodes[i].addr == addr) return (int) i;
		return -1;
	}
	int find_uid(const uint8_t uid[7]) const {
		for (size_t i = 0; i < nodes.size(); i++) if (!memcmp(nodes[i].uid, uid, 7)) return (int) i;
		return -1;
	}
	bool subtree_present(int idx) const {
		for (int i = idx; i >= 0; i = nodes[(size_t) i].parent) if (!nodes[(size_t) i].present) return false;
		return true;
	}

	// ------------------------------------------------ uplink
	UpFrame &enqueue(UpFrame f, uint64_t delay_us, uint64_t byte_gap_us = 0, long split_at = -1, uint64_t split_gap_us = 0) {
		f.id = ++frame_seq;
		f.enq_step = sim::step(); f.enq_time = sim::now_us();
		uint64_t t = sim::grid_round(sim::now_us() + delay_us);
		f.at.resize(f.bytes.size());
		for (size_t i = 0; i < f.bytes.size(); i++) {
			if ((long) i == split_at) t += split_gap_us;
			f.at[i] = t;
			t += byte_gap_us;
		}
		uint64_t start = f.at.empty() ? sim::now_us() : f.at[0];
		auto it = pending.begin();
		while (it != pending.end() && (it->pos > 0 || (it->at.empty() ? 0 : it->at[0]) <= start)) ++it;
		it = pending.insert(it, std::move(f));
		return *it;
	}
	static uint8_t next_seq(uint8_t &s) { uint8_t r = s; s = (s == 255) ? 1 : (uint8_t) (s + 1); return r; }

	// build + enqueue one packet with the given messages from a node; seq numbers assigned here
	uint64_t emit_msgs(int node, std::vector<ref::Msg> ms, const std::vector<Fault> &faults, uint64_t delay_us, int tag = 0, bool is_answer = false) {
		uint64_t gap = 0, split_gap = 0; long split_at = -1;
		bool lose = false, dup = false, dup_next = false;
		std::vector<std::pair<std::string, std::pair<int64_t, int64_t>>> bytefaults;
		for (auto &f : faults) {
			if (f.kind == "lose") lose = true;
			else if (f.kind == "dup") { dup = true; dup_next = f.a != 0; }
			else if (f.kind == "delay") { delay_us += (uint64_t) f.a * 1000; fired["delay"]++; if (f.a >= 2000) fired["delay>=2s"]++; }
			else if (f.kind == "chunk") { split_at = f.a; split_gap = (uint64_t) f.b * 1000; }
			else if (f.kind == "bytegap") gap = (uint64_t) f.a;
			else if (f.kind == "seqjump") { if (node >= 0) nodes[(size_t) node].tx_seq = (uint8_t) (f.a ? f.a : 1); fired["seqjump"]++; }
			else bytefaults.push_back({f.kind, {f.a, f.b}});
		}
		for (auto &m : ms) {
			if (node >= 0) { m.addr = nodes[(size_t) node].addr; if (m.seq == 0xEE) m.seq = 0; else m.seq = next_seq(nodes[(size_t) node].tx_seq); }
		}
		if (lose) { fired["lose"]++; return 0; }
		UpFrame f; f.node = node; f.msgs = ms; f.tag = tag; f.is_answer = is_answer;
		f.bytes = ref::frame_msgs(ms);
		for (auto &bf : bytefaults) {
			const std::string &k = bf.first; int64_t a = bf.second.first, b = bf.second.second;
			if (f.bytes.size() < 3) break;
			size_t inner = 1 + (size_t) a % (f.bytes.size() - 2);   // position strictly inside the delimiters
			if (k == "flip") { f.bytes[inner] ^= (uint8_t) (1u << (b & 7)); f.corrupted = true; fired["flip"]++; }
			else if (k == "dropbyte") { f.bytes.erase(f.bytes.begin() + (long) inner); f.corrupted = true; fired["dropbyte"]++; }
			else if (k == "insert") { f.bytes.insert(f.bytes.begin() + (long) inner, (uint8_t) b); f.corrupted = true; fired["insert"]++; }
			else if (k == "truncate") { f.bytes.resize(inner); f.corrupted = true; fired["truncate"]++; }
			else if (k == "extradelim") { f.bytes.insert(f.bytes.begin(), ref::MAGIC); fired["extradelim"]++; }
		}
		// the pause falls inside the frame (never before its first byte: frames of one node keep their order on the wire)
		if (split_at >= 0 && !f.bytes.empty()) { split_at = split_at % (long) f.bytes.size(); if (split_at == 0) split_at = 1; fired["chunk"]++; }
		if (node >= 0) {
			// (equal start times keep their order: enqueue() inserts behind frames that start at the same instant)
			uint64_t st = sim::grid_round(sim::now_us() + delay_us);
			if (st <= nodes[(size_t) node].last_start_us) st = sim::grid_round(nodes[(size_t) node].last_start_us + (sim::grid_round(3) > 3 ? 0 : 1));
			delay_us = st - sim::now_us();
			if (!overtakable_next) nodes[(size_t) node].last_start_us = st;     // a frame marked overtakable does not hold back the node's later frames
			overtakable_next = false;
		}
		UpFrame copy = f;
		uint64_t r = enqueue(std::move(f), delay_us, gap, split_at, split_gap).id;
		if (dup) {
			fired["dup"]++;
			if (dup_next && node >= 0) {
				for (auto &m : copy.msgs) m.seq = next_seq(nodes[(size_t) node].tx_seq);
				copy.bytes = ref::frame_msgs(copy.msgs);
			}
			copy.tag = tag | 0x40000000;
			enqueue(std::move(copy), delay_us + 500, gap);
		}
		return r;
	}
	uint64_t emit(int node, uint8_t type, const std::vector<uint8_t> &data, const std::vector<Fault> &faults = {}, uint64_t delay_us = 0, int tag = 0) {
		ref::Msg m; m.type = type; m.data = data;
		return emit_msgs(node, {m}, faults, delay_us, tag, false);
	}
	void emit_raw(const std::vector<uint8_t> &bytes, uint64_t delay_us, uint64_t byte_gap_us = 0, long split_at = -1, uint64_t split_gap_us = 0, int tag = 0) {
		if (byte_gap_us) fired["stream:slow-bytes"]++;
		if (split_at >= 0) fired["stream:split-across-polls"]++;
		UpFrame f; f.bytes = bytes; f.tag = tag; f.corrupted = true;
		enqueue(std::move(f), delay_us, byte_gap_us, split_at, split_gap_us);
	}

	// the library's read callback
	uint8_t on_read(int *ok) {
		reads++;
		// any read call means everything completely delivered earlier has been processed
		for (size_t i = done.size(); i-- > 0;) {
			if (done[i].processed) break;
			done[i].processed = true; done[i].processed_step = sim::step();
			if (on_processed) on_processed(done[i]);
		}
		uint64_t now = sim::now_us();
		while (!pending.empty() && pending.front().bytes.empty()) pending.pop_front();
		if (pending.empty() || pending.front().at[pending.front().pos] > now) { *ok = 0; empty_polls_since_byte++; return 0; }
		UpFrame &f = pending.front();
		uint8_t b = f.bytes[f.pos];
		if (f.pos == 0) f.first_read_step = sim::step();
		f.pos++;
		delivered.push_back(b);
		bytes_delivered++;
		empty_polls_since_byte = 0;
		*ok = 1;
		if (f.pos >= f.bytes.size()) {
			f.last_read_step = sim::step(); f.last_read_time = now;
			done.push_back(std::move(f));
			pending.pop_front();
			if (on_delivered) on_delivered(done.back());
		}
		return b;
	}
	bool uplink_idle() const { return pending.empty() && (done.empty() || done.back().processed); }
	bool quiescent() const { return uplink_idle() && empty_polls_since_byte >= 2; }
	uint64_t next_uplink_time() const { return pending.empty() ? UINT64_MAX : pending.front().at[pending.front().pos]; }

	// ------------------------------------------------ downlink
	void on_write(uint8_t *p, int32_t n) {
		write_calls++;
		if (n > 0 && (uint64_t) n > max_write) max_write = (uint64_t) n;
		if (on_write_raw) on_write_raw(p, n);
		if (n <= 0 || !p) return;
		wire_raw.insert(wire_raw.end(), p, p + n);
		sim::hash_mix(p, (size_t) n);
		auto sw = slow_writes.find(write_calls);
		if (sw != slow_writes.end()) { fired["slow-write"]++; sim::sleep_us(sw->second); }
		dec.feed(p, (size_t) n);
		for (size_t k = 0; k < dec.out.size(); k++) {
			auto &pk = dec.out[k];
			for (size_t j = 0; j < pk.size(); j++) {
				WireRec r; r.step = sim::step(); r.time_us = sim::now_us(); r.task = sim::self_id();
				r.pkt_index = pkt_count; r.pkt_payload = dec.out_sizes[k]; r.pkt_msgs = pk.size(); r.idx_in_pkt = j;
				r.write_call = write_calls; r.msg = pk[j];
				wire.push_back(r);
				if (on_wire) on_wire(wire.back());
				handle_request(pk[j]);
			}
			pkt_count++;
		}
		dec.out.clear(); dec.out_sizes.clear();
	}

	struct Ans { uint8_t type; std::vector<uint8_t> data; uint8_t alt_type; std::vector<uint8_t> alt_data; bool has = false, has_alt = false; };

	Ans default_answer(Node &n, const ref::Msg &m) {
		Ans a;
		auto set = [&](uint8_t t, std::vector<uint8_t> d) { a.type = t; a.data = std::move(d); a.has = true; };
		auto alt = [&](uint8_t t, std::vector<uint8_t> d) { a.alt_type = t; a.alt_data = std::move(d); a.has_alt = true; };
		const std::vector<uint8_t> &d = m.data;
		auto D = [&](size_t i) -> uint8_t { return i < d.size() ? d[i] : 0; };
		switch (m.type) {
			case MSG_SYS_GET_MAGIC: set(MSG_SYS_MAGIC, {0xFE, 0xAF}); break;
			case MSG_SYS_GET_P_VERSION: set(MSG_SYS_P_VERSION, {0x07, 0x00}); break;
			case MSG_SYS_GET_UNIQUE_ID: set(MSG_SYS_UNIQUE_ID, std::vector<uint8_t>(n.uid, n.uid + 7)); break;
			case MSG_SYS_GET_SW_VERSION: set(MSG_SYS_SW_VERSION, {1, 2, 3}); break;
			case MSG_SYS_PING: set(MSG_SYS_PONG, {D(0)}); break;
			case MSG_SYS_IDENTIFY: set(MSG_SYS_IDENTIFY_STATE, {D(0)}); break;
			case MSG_SYS_GET_ERROR: set(MSG_SYS_ERROR, {0x00}); break;
			case MSG_GET_PKT_CAPACITY: set(MSG_PKT_CAPACITY, {n.pkt_capacity}); break;
			case MSG_NODETAB_GETALL: {
				n.tab_iter = 0; n.enum_active = true; n.enum_dirty = false;
				int cnt = 1; for (int c : n.children) if (nodes[(size_t) c].present) cnt++;
				set(MSG_NODETAB_COUNT, {(uint8_t) cnt});
				break;
			}
			case MSG_NODETAB_GETNEXT: {
				if (n.enum_dirty) {
					// the table changed while it was being read: the read-out is void and has to be restarted by the host
					n.enum_dirty = false; n.enum_active = false;
					// (the signal carries 0, or - some interfaces - the size of the new table, which may equal the old one)
					int cnt = 1; for (int c : n.children) if (nodes[(size_t) c].present) cnt++;
					set(MSG_NODETAB_COUNT, {(uint8_t) (restart_count_real ? cnt : 0)}); fired["nodetab-restart"]++;
					break;
				}
				if (!n.enum_active) { set(MSG_NODE_NA, {255}); break; }
				std::vector<int> ent; ent.push_back(-1);
				for (int c : n.children) if (nodes[(size_t) c].present) ent.push_back(c);
				if (n.tab_iter < (int) ent.size()) {
					int e = ent[(size_t) n.tab_iter++];
					std::vector<uint8_t> v; v.push_back(n.tab_version);
					if (e < 0) { v.push_back(0); v.insert(v.end(), n.uid, n.uid + 7); }
					else { v.push_back(nodes[(size_t) e].addr.back()); v.insert(v.end(), nodes[(size_t) e].uid, nodes[(size_t) e].uid + 7); }
					set(MSG_NODETAB, v);
					if (n.tab_iter >= (int) ent.size()) n.enum_active = false;
				} else set(MSG_NODE_NA, {255});
				alt(MSG_NODE_NA, {255});
				break;
			}
			case MSG_FW_UPDATE_OP: set(MSG_FW_UPDATE_STAT, {D(0) == 0 ? (uint8_t) 0 : (uint8_t) 1, 0}); break;
			case MSG_FEATURE_GETALL: n.feat_iter = 0; set(MSG_FEATURE_COUNT, {(uint8_t) n.features.size()}); break;
			case MSG_FEATURE_GETNEXT:
				if (n.feat_iter < (int) n.features.size()) { auto &f = n.features[(size_t) n.feat_iter++]; set(MSG_FEATURE, {f.first, f.second}); }
				else set(MSG_FEATURE_NA, {255});
				alt(MSG_FEATURE_NA, {255});
				break;
			case MSG_FEATURE_GET: {
				bool found = false;
				for (auto &f : n.features) if (f.first == D(0)) { set(MSG_FEATURE, {f.first, f.second}); found = true; }
				if (!found) set(MSG_FEATURE, {D(0), 0});   // (the NA form is only used as an injected 'alt' answer)
				alt(MSG_FEATURE_NA, {D(0)});
				break;
			}
			case MSG_FEATURE_SET: {
				uint8_t v = D(1);
				auto ov = n.feature_override.find(D(0));
				if (ov != n.feature_override.end()) v = ov->second;
				bool found = false;
				for (auto &f : n.features) if (f.first == D(0)) { f.second = v; found = true; }
				if (!found) n.features.push_back({D(0), v});
				set(MSG_FEATURE, {D(0), v});
				break;
			}
			case MSG_VENDOR_ENABLE: set(MSG_VENDOR_ACK, {1}); break;
			case MSG_VENDOR_DISABLE: set(MSG_VENDOR_ACK, {0}); break;
			case MSG_VENDOR_SET: case MSG_VENDOR_GET: {
				std::vector<uint8_t> v; uint8_t nl = D(0);
				v.push_back(nl); for (uint8_t i = 0; i < nl && 1u + i < d.size(); i++) v.push_back(d[1u + i]);
				v[0] = (uint8_t) (v.size() - 1);
				v.push_back(1); v.push_back('0');
				if (v.size() > 28) { v.resize(0); v.push_back(1); v.push_back('x'); v.push_back(1); v.push_back('0'); }
				set(MSG_VENDOR, v);
				break;
			}
			case MSG_STRING_GET: case MSG_STRING_SET: set(MSG_STRING, {D(0), D(1), 2, 'o', 'k'}); break;
			case MSG_BM_GET_RANGE: {
				uint8_t s = D(0), e = D(1); int sz = e > s ? e - s : 8; if (sz > 128) sz = 128;
				std::vector<uint8_t> v{s, (uint8_t) sz}; for (int i = 0; i < sz / 8; i++) v.push_back(0);
				if (v.size() > 2 + 16) v.resize(18);
				set(MSG_BM_MULTIPLE, v); alt(MSG_BM_FREE, {s});
				break;
			}
			case MSG_BM_GET_CONFIDENCE: set(MSG_BM_CONFIDENCE, {0, 0, 0}); break;
			case MSG_BOOST_OFF: n.boost_state = 0x00; set(MSG_BOOST_STAT, {n.boost_state}); break;
			case MSG_BOOST_ON: n.boost_state = 0x80; set(MSG_BOOST_STAT, {n.boost_state}); break;
			case MSG_BOOST_QUERY: set(MSG_BOOST_STAT, {n.boost_state}); break;
			case MSG_ACCESSORY_SET: set(MSG_ACCESSORY_STATE, {D(0), D(1), 4, 0, 0}); break;
			case MSG_ACCESSORY_GET: set(MSG_ACCESSORY_STATE, {D(0), 0, 4, 0, 0}); break;
			case MSG_ACCESSORY_PARA_SET: case MSG_ACCESSORY_PARA_GET: set(MSG_ACCESSORY_PARA, {D(0), D(1), 0}); break;
			case MSG_LC_OUTPUT: set(MSG_LC_STAT, {D(0), D(1), D(2)}); alt(MSG_LC_NA, {D(0), D(1)}); break;
			case MSG_LC_PORT_QUERY: set(MSG_LC_STAT, {D(0), D(1), 0}); alt(MSG_LC_NA, {D(0), D(1)}); break;
			case MSG_LC_CONFIG_SET: case MSG_LC_CONFIG_GET: set(MSG_LC_CONFIG, {D(0), D(1), 0, 0, 0, 0}); alt(MSG_LC_NA, {D(0), D(1)}); break;
			case MSG_LC_KEY_QUERY: set(MSG_LC_KEY, {D(0), 0}); alt(MSG_LC_NA, {D(0), 0}); break;
			case MSG_LC_CONFIGX_SET: case MSG_LC_CONFIGX_GET: set(MSG_LC_CONFIGX, {D(0), D(1), 1, 2}); break;
			case MSG_LC_MACRO_HANDLE: set(MSG_LC_MACRO_STATE, {D(0), 0}); break;
			case MSG_LC_MACRO_SET: case MSG_LC_MACRO_GET: set(MSG_LC_MACRO, {D(0), D(1), 0, 0, 0, 0}); break;
			case MSG_LC_MACRO_PARA_SET: case MSG_LC_MACRO_PARA_GET: set(MSG_LC_MACRO_PARA, {D(0), D(1), 0, 0, 0, 0}); break;
			case MSG_CS_SET_STATE: if (D(0) != 0xFF) n.cs_state = D(0); set(MSG_CS_STATE, {n.cs_state}); break;
			case MSG_CS_DRIVE: set(MSG_CS_DRIVE_ACK, {D(0), D(1), 1}); break;
			case MSG_CS_BIN_STATE: set(MSG_CS_DRIVE_ACK, {D(0), D(1), 1}); break;
			case MSG_CS_ACCESSORY: set(MSG_CS_ACCESSORY_ACK, {D(0), D(1), 1}); break;
			case MSG_CS_POM: set(MSG_CS_POM_ACK, {D(0), D(1), D(2), D(3), D(4), 1}); break;
			case MSG_CS_RCPLUS: set(MSG_CS_RCPLUS_ACK, {D(0), 0, 0, 0, 0, 0, 0}); break;
			case MSG_CS_PROG: set(MSG_CS_PROG_STATE, {0, 0, D(1), D(2), D(3)}); break;
			case MSG_SYS_RESET: for (auto &x : nodes) { x.tx_seq = 1; x.tab_iter = 0; x.feat_iter = 0; x.enum_active = x.enum_dirty = false; x.tab_version = 1; } break;   // (the table version starts over as well)
			default: break;
		}
		return a;
	}

	void handle_request(const ref::Msg &m) {
		if (!auto_answer || !answers_enabled) return;
		int idx = find(m.addr);
		if (idx < 0 || !subtree_present(idx)) return;
		Node &n = nodes[(size_t) idx];
		if (on_request && on_request(n, m)) return;
		Ans a = default_answer(n, m);
		if (!a.has) return;
		uint64_t ord = ++answer_ordinal;
		std::vector<Fault> fs;
		auto it = answer_faults.find(ord);
		if (it != answer_faults.end()) {
			if (it->second.kind == "alt") { if (a.has_alt) { a.type = a.alt_type; a.data = a.alt_data; fired["alt"]++; } }
			else fs.push_back(it->second);
		}
		if (drop_answer_types.count(a.type)) { fired["lose"]++; return; }
		answered_types[a.type]++;
		uint64_t extra = 0;
		auto td = type_delays.find(a.type);
		if (td != type_delays.end() && answered_types[a.type] >= td->second.first) { extra = td->second.second; fired["slow-node"]++; if (extra >= 2000000) fired["delay>=2s"]++; }
		for (auto &o : type_delay_once) if ((int) o[0] == a.type && answered_types[a.type] == o[1]) { extra += o[2]; overtakable_next = true; fired["answer-late-and-overtakable"]++; }
		for (auto &o : type_dup_once) if ((int) o[0] == a.type && answered_types[a.type] == o[1]) { Fault df; df.kind = "dup"; df.a = (int64_t) o[2]; fs.push_back(df); }
		ref::Msg r; r.type = a.type; r.data = a.data;
		emit_msgs(idx, {r}, fs, resp_delay_us + extra, 0, true);
	}
};

}  // namespace bus

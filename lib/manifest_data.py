NOTE_COMMON = ('trusted base: the simulator (sim/sim_core.cpp scheduler, lock model, clock), SimBus and the independent reference codec/models; '
               'glib and libyaml uninstrumented; reader-preferring rwlocks; sampling of schedules/fault sequences, not enumeration; '
               'every run draws a scheduler policy (random walk / PCT / sticky / starvation), optionally function-entry preemption, a time grid that makes timer-driven '
               'library threads and application tasks runnable at the same instants, a descheduling fault at lock / unlock points (simulated time passes), and preemption points at the library\'s GLib-container and libc (malloc/free/strdup/strcmp/memcpy) calls')

CHECKS = {
    'C01': {
        'text': 'Seeded search over sender interleavings, flush timing, capacity announcements and slow writes; every downlink byte is decoded by an '
                'independent reference codec (framing, escapes, bit-wise CRC8, whole messages), and after quiescence the multiset of wire messages must '
                'equal the reference encoding of the accepted calls; multi-message packets are bounded by the largest capacity that can have been in force; bidib_flush is judged as a barrier (when it returns, everything the same task submitted before is on the wire); a system reset races senders of unanswered messages. '
                'Exploration is the right level: the property quantifies over schedules and histories, which are sampled, not enumerated.',
        'ref': 'DESIGN.md section 3 C01', 'note': NOTE_COMMON,
        'technique': 'deterministic simulation: seeded scheduler + reference decoder oracle over the write callback',
    },
    'C02': {
        'text': 'Seeded search over corrupted uplink byte streams (bit flips, dropped/inserted bytes, truncation, stray and duplicate delimiters, noise) and every '
                'chunking across read polls, plus loop-back of the library\'s own downlink; the bytes actually delivered are decoded by the independent reference '
                'codec into GOOD / BAD-CRC / UNSPECIFIED frames and the messages read through bidib_read_message must equal the GOOD frames\' messages in order, exactly once. Loop-back pings carry engineered data so that CRC bytes need escaping; runs of 2-3 sessions end streams inside a packet and judge every session on its own stream; normal-mode runs deliver error-class messages and bit-flipped copies while an application task drains the error queue under the GLib-container lockset monitor; unread bursts of 129-190 packets (the newest 128 must come out in stream order); the line falls silent inside a packet for 0.1-0.4 s now and then.',
        'ref': 'DESIGN.md section 3 C02', 'note': NOTE_COMMON,
        'technique': 'deterministic simulation: transport-fault injection on the read callback + reference decoder oracle',
    },
    'C03': {
        'text': 'Seeded search over request sequences, lost / duplicated / alternative / delayed answers, clock advances across the 2 s expiry and sender-vs-receiver '
                'interleavings; a per-node reference model of outstanding response budget is driven by the same events: lenient-low for the <=48 safety check at every '
                'wire emission, lenient-high (FIFO head matching + expiry) for never-stranded after each processed uplink message; FIFO vs real-time order of calls; '
                'exactly-once after a heal phase. The low model credits an answer to any request invoked before the answer is known processed; the high model keeps a fresh request when the answer may have been spent on an expired one; a stranded-trigger is only noted when the library\'s own reported budget figure leaves room as well; focused stall floods (130-170 held messages).',
        'ref': 'DESIGN.md section 3 C03', 'note': NOTE_COMMON,
        'technique': 'deterministic simulation: fault injection on answers + simulated clock + flow-control reference model',
    },
    'C04': {
        'text': 'Seeded search over node trees, nested stall/unstall sequences and concurrent senders; no message whose call was invoked after STALL=1 was known processed '
                'may reach the wire before the matching STALL=0 starts to be delivered, unaffected nodes are served at once, and after all stalls are cleared everything is '
                'transmitted exactly once in per-node order. Stalls last from milliseconds to many seconds (longer than the 2 s answer expiry); focused stalls hold more requests than one response budget or 130-170 messages for one node, with a spontaneous report right behind the MSG_STALL=0 and slow answers; the budget model stamps stall-held requests at the end of the stall.',
        'ref': 'DESIGN.md section 3 C04', 'note': NOTE_COMMON,
        'technique': 'deterministic simulation: stall windows from SimBus events + wire oracle',
    },
    'C05': {
        'text': 'Seeded schedules (PCT with 1-4 priority change points, random walk, sticky, starvation, function-entry preemption) of 2-16 sender tasks; the decoded wire '
                'must carry consecutive per-node sequence numbers across the 255->1 wrap; normal-mode runs in which a node stops answering one request kind (numbered messages are held back), then another node is lost and / or the application resets the system; normal-mode variant (probing with numbering off, SYS_RESET restarts numbering) and lost / duplicated / renumbered answers in between.',
        'ref': 'DESIGN.md section 3 C05', 'note': NOTE_COMMON,
        'technique': 'deterministic simulation: seeded scheduler (PCT / random walk) + wire oracle',
    },
    'C06': {
        'text': 'Seeded search over uplink traffic of all 256 type codes (error / non-error variants) in both modes, queue fill levels around 128 and 0-4 reader tasks racing the '
                'receiver. A reference dispatch table written from the README gives the expected pushes per queue; the simulator observes the order of critical sections on each '
                'queue mutex, which is the linearisation order in which a sequential bounded-FIFO model is replayed: every pop must return exactly the model\'s element. Bare MSG_SYS_ERROR without parameters, Secure-ACK boards and position reports are part of the traffic; the GLib-container lockset monitor is armed; after bidib_stop the library heap must be back at the level of a traffic-free warm-up session (messages still queued are released); a report that arrives during the start-up dialogue must be waiting in its queue when the start returns.',
        'ref': 'DESIGN.md section 3 C06', 'note': NOTE_COMMON,
        'technique': 'deterministic simulation: linearisation order from the lock model + sequential bounded-FIFO reference',
    },
    'C07': {
        'text': 'Seeded worlds and sequences of every state-bearing uplink message kind with arbitrary field values (incl. unknown targets, corrupted and duplicated copies, '
                'chunked delivery) interleaved at quiescent points with the user\'s commands; an executable reference model of the track state, fed with every processed '
                'uplink message and every optimistic command in the simulator\'s global event order, must equal bidib_get_state at every quiescent point. Application-issued system resets and node lost / new notices are folded by the model as well (reset: every dynamic field back to its configured initial value); a lost MSG_NODE_LOST followed by a re-login elsewhere, feedback from the boards\' current addresses; low-level drive commands with a 1-3 ms auto-flush and a caller descheduled at lock points (the acknowledgement may arrive before the call returns); a command the library holds back takes effect in the model when the call returns.',
        'ref': 'DESIGN.md section 3 C07', 'note': NOTE_COMMON + '; sequentialised mode only (one event between quiescent points, internal threads still scheduled at random); the concurrent linearisation mode of the design is not built',
        'technique': 'deterministic simulation: SimBus events with transport faults + reference state model compared at quiescence',
    },
    'C08': {
        'text': 'Seeded occupancy / address report histories over several boards and trains with 1-3 concurrent reader tasks; after every message the presence getters must '
                'equal the reference model (on_track <=> listed, position = exactly the listing segments, orientation one of the reported), and a bidib_get_state snapshot of '
                'a concurrent reader must be internally consistent whenever the simulator saw no segment-mutating critical section during the call; presence-version oracle: the result of a concurrent position / on-track reader must equal the model\'s presence as of some uplink frame whose delivery-to-processed interval overlaps the call. Address storms (one report per 5 ms grid instant, readers working in batches at every instant) and resets are part of the histories; concurrent bidib_get_segment_state results are judged by the same version oracle; snapshots that overlap updates are judged for order (train presence never older than the segment lists); manual drive reports incl. release-loco are part of the traffic.',
        'ref': 'DESIGN.md section 3 C08', 'note': NOTE_COMMON,
        'technique': 'deterministic simulation: reference model + lock-section trace to judge concurrent snapshots',
    },
    'C09': {
        'text': 'Seeded configurations and node trees (boards present, absent, lost and re-logged-in at another address) with histories of every high-level command over '
                'every configured id x every aspect / every speed -126..126 and out of range / every function bit, plus unknown ids, undefined aspects and disconnected boards, '
                'run while the receiver and auto-flush threads are scheduled at random. An independent config->message reference (own speed and function-group encoding, own '
                'function-bit history) gives the exact expected downlink messages per accepted call; a rejected call must add nothing to the wire and leave bidib_get_state '
                'unchanged; optimistic state is compared with the reference after each call. Aspect ids are generated as prefix chains in one configuration of three and unknown '
                'ids as near misses of configured ones. Phases of 2-4 tasks issue train commands concurrently: the downlink must then be explained by ONE serial order of the '
                'commands against the same reference (search over assignments respecting program order), and the final state must equal the model; when the command station reports manual drive commands for the same train meanwhile, one total order of commands and reports that respects real-time precedence must explain both the downlink and the final state (lost updates between a command and the receiver). A lost MSG_NODE_LOST followed by an immediate re-login elsewhere and interfaces leaving with the boards beneath them (also with a repeated notice) are part of the topology histories.',
        'ref': 'DESIGN.md section 3 C09', 'note': NOTE_COMMON + '; the values are generated per run, the history dependence (function bits, direction at speed 0, address changes after re-login) is what the simulation adds',
        'technique': 'deterministic simulation: command histories against SimBus with topology events + config->message reference model on the wire',
    },
    'C17': {
        'text': 'Seeded worlds and state histories; every getter is called with known ids, unknown ids and NULL at random points of the history, its result is scanned for bytes '
                'still holding the simulator\'s fill patterns (stack 0xAA auto-init pattern, heap 0xA5 fill: an unset field is visible without Memcheck), canonicalised and retained '
                'while the state keeps changing, across bidib_stop and a following session, then compared again and passed to its free function exactly once under ASan. At '
                'quiescent points the whole-track snapshot is compared field by field with all single-entity getters. Hot-entity runs (three in ten): two uplink messages that each determine one entity\'s state are calibrated at quiescent moments and then alternate every 5-15 ms while 1-3 tasks call that entity\'s getter and bidib_get_state; every concurrent result must equal one of the two calibrated results (a copy of ONE state, not a mix, not freed memory); one kind is the list of connected boards while a board leaves and logs in again. Index getters are compared with positions in the snapshot.',
        'ref': 'DESIGN.md section 3 C17', 'note': NOTE_COMMON + '; definedness by fill-pattern scan of the returned struct instead of Valgrind Memcheck (a field that happens to be set to the pattern byte value would be misjudged; the scan therefore requires whole-field matches of the 0xAA/0xA5 patterns)',
        'technique': 'deterministic simulation: retained query results across state changes / stop / restart + fill-pattern definedness scan + snapshot-vs-getter differential under ASan',
    },
    'C20': {
        'text': 'Seeded configurations (features and initial values on any subset of boards, accessories and trains) x node trees with any subset of the configured boards present, '
                'boards answering feature requests with the requested or another value, delayed and chunked answers, a slow node whose feature confirmations are 2-4.5 s late while more '
                'FEATURE_SETs than one response budget are pending, single confirmations that are late and overtaken by the ones behind them, a late GO confirmation, a board (or an interface with everything beneath it) lost during the feature phase or after its node-table row was read, an interface with configured boards logging in during the enumeration, spontaneous occupancy traffic during the dialogue, and a system '
                'reset later in the session (answers are never lost here: the start-up dialogue has no timeout and would rightly wait). The complete decoded downlink transcript of every start-up / reset dialogue is checked against a transcript model: features only to their '
                'connected board and before SYS_ENABLE, every connected track output switched on, then every initial aspect exactly once and every initial train function once per '
                'connected track output with the encoding of the high-level command, nothing for absent boards.',
        'ref': 'DESIGN.md section 3 C20', 'note': NOTE_COMMON,
        'technique': 'deterministic simulation: start-up / reset dialogue against SimBus with delayed / chunked / alternative answers + transcript reference model',
    },
    'C10': {
        'text': 'One concurrent workload (2-16 tasks mixing reads, flush, low-/high-level sends and every getter, continuous uplink traffic, auto-flush) under the deterministic '
                'scheduler with three detectors: a ThreadSanitizer build in which the baton hand-off is invisible and all harness code is bracketed by ignore annotations, so only '
                'the library\'s own locks create happens-before and an unsynchronised access pair is reported although the run is serialised; a lock-contract monitor generated '
                'from the \'Shall only be called with ...\' comments of the current tree (armed only between start and stop); and an atomicity oracle (entity updates derive all '
                'fields from one counter, getter results must be internally consistent; unique queue messages are read exactly once). In addition: an Eraser-style lockset monitor on '
                'every GLib container call made by the library (GLib is not instrumented, so neither TSan nor the contract monitor sees inside g_queue_* / g_hash_table_* / '
                'g_array_*); a focus mode in which readers hammer the single getter of one entity while the bus keeps changing exactly that entity; and 22 % of the runs use the '
                'concurrent train-command workload of C09 with its serial-order oracle (lost updates without any data race).',
        'ref': 'DESIGN.md section 3 C10', 'note': NOTE_COMMON + '; preemption at synchronisation points and function entries, not at every instruction (TSan compensates for races, nothing does for a torn update inside one function body between two plain accesses)',
        'technique': 'deterministic simulation: seeded scheduler + ThreadSanitizer with invisible baton + generated lock-contract monitor + GLib-container lockset monitor + atomicity / serial-order oracles',
    },
    'C11': {
        'text': 'Seeded search over every public call x argument classes (valid, unknown id, NULL, disconnected, undefined aspect, out of range), every uplink type incl. node '
                'new/lost during the start-up dialogue, rejected configurations and system resets. The simulator owns lock state: the held set is compared at entry and return of '
                'every call, deadlock / self-deadlock / a lock that is never granted are decided by the scheduler (no wall-clock timeout), and the lock-order graph merged over '
                'all runs of a check must be acyclic (cycles of pure read re-acquisition excepted). One run in 150 is a long history of more than 10 000 paced commands (the action-id counter wraps).',
        'ref': 'DESIGN.md section 3 C11', 'note': NOTE_COMMON,
        'technique': 'deterministic simulation: lock model (held sets, wait-for graph) + merged lock-order graph',
    },
    'C12': {
        'text': 'Hostile uplink streams (random, mutated, grammar-generated CRC-valid packets with adversarial length/address/type/field values, oversized frames) in debug and '
                'normal mode against generated configurations, incl. single messages close to the 255-byte maximum, under ASan/UBSan with deterministic fill patterns; application tasks (getters, commands, queue readers) running during the stream; then a liveness '
                'probe: a known-good packet must still be processed; the GLib-container lockset monitor is armed; a capacity dance (large announcement, unflushed batch, smaller announcement); Secure-ACK boards with position reports; unread bursts beyond the queue bound. A receiver that spins without reaching a scheduling point is reported by a CPU-time monitor outside the simulation.',
        'ref': 'DESIGN.md section 3 C12', 'note': NOTE_COMMON,
        'technique': 'deterministic simulation: line-noise / adversarial-frame injection + sanitizers + bounded-liveness probe',
    },
    'C13': {
        'text': 'Seeded structure-aware mutations of generated valid configuration triples, raw noise, and file faults (missing file, truncation at byte k, EIO after k bytes) on the '
                'in-memory file layer; the start runs the real threads against the simulated interface on simulated time and the whole stop path on error. Oracles: returns 0/1 '
                '(deadlock, self-deadlock and unbounded wait are decided by the scheduler, not by a timeout), sanitizers, locks released, threads joined, configuration FILE closed, '
                'library-attributed live heap back to the warm-up level, and a following start with the valid configuration works; boards log in and report while a start is going on, single feature confirmations arrive late and overtaken, traffic falls into the node-table read-out, one mutated start in six goes through bidib_start_serial, boards with 9-24 features, a leaf re-login during the read-out signalled with the size of the new table; a parser loop that never reaches a scheduling point '
                'is reported by a CPU-time monitor outside the simulation (12 s of CPU time without a scheduling step). The input-generation part is ordinary generation; '
                'the simulation contributes threads, time, the file faults and the lock/heap/thread bookkeeping.',
        'ref': 'DESIGN.md section 3 C13', 'note': NOTE_COMMON,
        'technique': 'deterministic simulation: in-memory file layer with faults + lock/thread/heap bookkeeping around start/stop',
    },
    'C15': {
        'text': 'Seeded node trees (nested interfaces, unknown ids, absent boards), node-table changes in the middle of the start-up enumeration and afterwards sequences of '
                'node-lost / node-new notices incl. interfaces with children, re-login at another address and repeated notices; an unconfigured hub with configured boards beneath it '
                'logging in while another sub-interface is enumerated (triggered by the protocol event, not by a time); lost and duplicated notices (also the login notice of an interface, whose boards then announce themselves beneath a host-side lost interface), node-table rows that are seconds late; a connectivity model driven by the same notices is compared with the '
                'connectivity getters after every notice, the acknowledgement must be on the wire when the notice is known processed, and commands go to the model\'s current '
                'address of connected boards only.',
        'ref': 'DESIGN.md section 3 C15', 'note': NOTE_COMMON,
        'technique': 'deterministic simulation: SimBus topology events (incl. during start-up) + connectivity reference model',
    },
    'C16': {
        'text': 'Seeded sequences of 2-5 sessions in one process (debug / pointer / simulated serial device / silent interface / unopenable device / missing configuration file, '
                'auto-flush on or off, stop-while-stopped, start-while-running incl. with a configuration that would be rejected, late probe answers and stale bytes on the line, node-table changes during the enumeration, application-issued resets, command stations that never confirm a state change, more trains than one response budget at shutdown, rejected configurations of several kinds with a heap-level check) with activity in between. Oracles: start result, shutdown transcript, thread create/join '
                'bookkeeping with never-reused synthetic handles (a stale join is detected, not executed), exact library-attributed live-heap accounting after every stop, and '
                'equality of the last session with a reference copy of itself run on process-start static state (transcripts, packet boundaries and getter results exactly in runs '
                'without scheduling faults; multiset of messages per destination in runs with descheduling / starvation).',
        'ref': 'DESIGN.md section 3 C16', 'note': NOTE_COMMON,
        'technique': 'deterministic simulation: multi-session histories + thread/heap bookkeeping + fresh-state differential',
    },
    'C19': {
        'text': 'Seeded worlds with Secure-ACK enabled / disabled / absent per board, occupancy reports of all four kinds from several boards interleaved with sender tasks, '
                'optionally while the reporting board is stalled, with MULTIPLE windows up to the last detector and a task that consumes (and frees) the message queue meanwhile; '
                'every report of a SecAck board must produce exactly one mirror with the same payload, in order, already on '
                'the wire when the report is known processed (no flush by the application, auto-flush off) unless a stall or an exhausted response budget (answers dropped by the bus) impedes it - then exactly once after the impediment ends; other boards never receive mirrors, also after two boards with different Secure-ACK settings swapped addresses, after a duplicated feature confirmation during start-up, and for answers to the application\'s own range queries (non-zero action id).',
        'ref': 'DESIGN.md section 3 C19', 'note': NOTE_COMMON,
        'technique': 'deterministic simulation: SimBus report events + wire oracle at the moment of known processing',
    },
}

NOT_APPLICABLE = {
    'C14': 'pure function of the three configuration files: no schedule, clock, fault or interleaving can change accept/reject or the enumeration getters; deciding it would be input generation against a reference parser, not simulation (the threaded/start/stop side of configuration loading is covered by C13)',
    'C18': 'pure function from call arguments to 0/1 encoded message, quantified over inputs only; nothing for a simulator to schedule or fault (C01 drives the same functions and checks what reaches the wire)',
}

_NB = 'deterministic-simulation check designed in DESIGN.md but not built yet in this round; not claimed until its check exists'
NOT_BUILT_YET = {k: _NB for k in ['C02', 'C03', 'C04', 'C05', 'C06', 'C07', 'C08', 'C09', 'C10', 'C11', 'C12', 'C13', 'C15', 'C16', 'C17', 'C19', 'C20']}

HOOK_COMMITS = []
NOTES = ('All checks rebuild the library objects from /repo\'s current working tree (content-hashed build cache under /verif/build). '
         'VERIF_SEED offsets the seed range, VERIF_TIER selects the tier, VERIF_WORKERS the worker count (default 16). '
         'Exit 0 = held, 1 = VIOLATION line with a minimised replay file, 2 = infrastructure problem (build failure, simulator nondeterminism, watchdog).')

NOTE_COMMON = ('trusted base: the simulator (sim/sim_core.cpp scheduler, lock model, clock), SimBus and the independent reference codec/models; '
               'glib and libyaml uninstrumented; reader-preferring rwlocks; sampling of schedules/fault sequences, not enumeration')

CHECKS = {
    'C01': {
        'text': 'Seeded search over sender interleavings, flush timing, capacity announcements and slow writes; every downlink byte is decoded by an '
                'independent reference codec (framing, escapes, bit-wise CRC8, whole messages), and after quiescence the multiset of wire messages must '
                'equal the reference encoding of the accepted calls; multi-message packets are bounded by the largest capacity that can have been in force. '
                'Exploration is the right level: the property quantifies over schedules and histories, which are sampled, not enumerated.',
        'ref': 'DESIGN.md section 3 C01', 'note': NOTE_COMMON,
        'technique': 'deterministic simulation: seeded scheduler + reference decoder oracle over the write callback',
    },
}

NOT_APPLICABLE = {
    'C14': 'pure function of the three configuration files: no schedule, clock, fault or interleaving can change accept/reject or the enumeration getters; deciding it would be input generation against a reference parser, not simulation (the threaded/start/stop side of configuration loading is covered by C13)',
    'C18': 'pure function from call arguments to 0/1 encoded message, quantified over inputs only; nothing for a simulator to schedule or fault (C01 drives the same functions and checks what reaches the wire)',
}

_NB = 'deterministic-simulation check designed in DESIGN.md but not built yet in this round; not claimed until its check exists'
NOT_BUILT_YET = {k: _NB for k in ['C02', 'C03', 'C04', 'C05', 'C06', 'C07', 'C08', 'C09', 'C10', 'C11', 'C12', 'C13', 'C15', 'C16', 'C17', 'C19', 'C20']}

HOOK_COMMITS = []
NOTES = ('All checks rebuild the library objects from /repo\'s current working tree (content-hashed build cache under /verif/build). '
         'VERIF_SEED offsets the seed range, VERIF_TIER selects the tier, VERIF_WORKERS the worker count (default 16). '
         'Exit 0 = held, 1 = VIOLATION line with a minimised replay file, 2 = infrastructure problem (build failure, simulator nondeterminism, watchdog).')

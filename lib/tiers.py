"""Budgets per property and tier (16 workers). count = upper bound on seeds, seconds = wall budget of the search."""

def T(qc, qs, tc, ts, **kw):
    q = {'count': qc, 'seconds': qs, 'min_runs': 150, 'min_seconds': 60}
    t = {'count': tc, 'seconds': ts, 'min_runs': 500, 'min_seconds': 240}
    q.update(kw.get('quick', {})); t.update(kw.get('thorough', {}))
    for k in ('required_probes',):
        if k in kw:
            q[k] = kw[k]; t[k] = kw[k]
    return {'quick': q, 'thorough': t}

TIERS = {
    'C01': T(200000, 30, 5000000, 600),
    'C02': T(200000, 30, 5000000, 600),
    'C03': T(200000, 35, 5000000, 700),
    'C04': T(200000, 30, 5000000, 600),
    'C05': T(200000, 30, 5000000, 600),
    'C06': T(200000, 30, 5000000, 600),
    'C07': T(200000, 30, 5000000, 800),
    'C08': T(200000, 30, 5000000, 700),
    'C09': T(200000, 35, 5000000, 800),
    'C10': T(200000, 25, 5000000, 500, quick={'secondary': {'tsan': {'count': 200000, 'seconds': 25, 'seed_offset': 500001}}},
             thorough={'secondary': {'tsan': {'count': 5000000, 'seconds': 500, 'seed_offset': 500001}}}),
    'C11': T(200000, 40, 5000000, 800),
    'C12': T(400000, 35, 9000000, 700),
    'C13': T(400000, 35, 9000000, 700),
    'C15': T(200000, 40, 5000000, 800),
    'C16': T(200000, 40, 5000000, 800),
    'C17': T(200000, 40, 5000000, 800),
    'C19': T(200000, 35, 5000000, 700),
    'C20': T(200000, 30, 5000000, 800),
}

VARIANTS = {'C10': ['asan', 'tsan']}

COMPONENTS = {
    'real_code': ['every file under /repo/src (compiled from the current working tree; serial_port.c runs against a simulated device)',
                  'libyaml (uninstrumented)', 'glib GArray/GQueue/GHashTable/GString (uninstrumented, G_SLICE=always-malloc)'],
    'simulated': ['thread scheduling (seeded scheduler, one runnable task at a time)', 'mutex / rwlock ownership (reader-preferring rwlocks as glibc default)',
                  'time(), clock_gettime(), usleep() on a discrete-event clock', 'syslog/openlog/closelog (discarded)',
                  'fopen on the configuration directory (in-memory files with ENOENT / truncation / EIO)',
                  'serial device open/read/write/close/termios', 'the BiDiB bus: node tree, answers, spontaneous messages, transport faults (SimBus)'],
}

ASSUMPTIONS = [
    'sampling, not enumeration: a clean batch is evidence, not proof',
    'preemption points are lock operations, sleeps, callbacks, API boundaries and (when enabled per run) library function entries - not every instruction',
    'rwlocks are reader-preferring (glibc default); writer-preferring implementations are out of scope',
    'SimBus and the reference models are my reading of the BiDiB specification and of the public header documentation',
    'glib and libyaml are trusted and not instrumented',
]

#!/usr/bin/env python3
"""Regenerate MANIFEST.json from lib/manifest_data.py (keeps the file valid and in one place)."""
import json, os, sys
VERIF = os.path.dirname(os.path.dirname(os.path.abspath(__file__)))
sys.path.insert(0, os.path.join(VERIF, 'lib'))
from manifest_data import CHECKS, NOT_APPLICABLE, NOT_BUILT_YET, HOOK_COMMITS, NOTES
checks = []
for pid in sorted(CHECKS):
    c = CHECKS[pid]
    checks.append({
        'property_id': pid,
        'quick_cmd': './bin/check %s --tier quick' % pid,
        'thorough_cmd': './bin/check %s --tier thorough' % pid,
        'evidence_file': 'evidence/%s.json' % pid,
        'replay_cmd_template': './bin/check %s --replay {path}' % pid,
        'engine': 'dst',
        'level_claimed': {'category': 'exploration', 'text': c['text'], 'design_ref': c['ref']},
        'level_note': c['note'],
        'technique': c['technique'],
    })
na = [{'property_id': k, 'reason': v} for k, v in sorted(NOT_APPLICABLE.items())]
na += [{'property_id': k, 'reason': v} for k, v in sorted(NOT_BUILT_YET.items()) if k not in CHECKS]
m = {
    'version': 1,
    'setup_cmd': './bin/setup',
    'hooks': {
        'guard': 'UNIBA_SWT_LIBBIDIB_VERIF',
        'enable': 'bin/build compiles /repo/src/*/*.c with -DUNIBA_SWT_LIBBIDIB_VERIF (no source hook is needed: all seams are the user callbacks of bidib_start_pointer and link-time --wrap of libc/pthread symbols referenced by the library objects)',
        'baseline_off_cmd': 'cmake -G Ninja -S /repo -B /repo/_build >/dev/null && cmake --build /repo/_build >/dev/null && ctest --test-dir /repo/_build -j8 --timeout 900',
        'source_commits': HOOK_COMMITS,
        'add_only': True,
    },
    'engines': [{'name': 'dst', 'path': 'sim/', 'serves_properties': sorted(CHECKS), 'kind_free_text':
                 'deterministic simulation with fault injection: seeded scheduler over real threads (baton), simulated clock, lock model, SimBus with transport faults, in-memory config files; plans + schedules are replayable JSON'}],
    'checks': checks,
    'not_applicable': na,
    'notes': NOTES,
}
json.dump(m, open(os.path.join(VERIF, 'MANIFEST.json'), 'w'), indent=1)
print('MANIFEST.json written: %d checks, %d not claimed' % (len(checks), len(na)))

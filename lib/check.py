#!/usr/bin/env python3
"""bin/check <ID> [--tier quick|thorough] [--replay FILE]

Seeded search over plans (operation + fault sequences) and schedules with the deterministic
simulator; 16 worker processes; every violation is re-executed in fresh processes (determinism
gate), matched against known_findings.json, minimised and written out as a replay file.
Exit codes: 0 held (maybe KNOWN-FINDING lines), 1 VIOLATION, 2 infrastructure problem."""
import json, os, re, subprocess, sys, time, hashlib, shutil, signal, select, copy, glob

VERIF = os.path.dirname(os.path.dirname(os.path.abspath(__file__)))
sys.path.insert(0, os.path.join(VERIF, 'lib'))
from tiers import TIERS, VARIANTS, COMPONENTS, ASSUMPTIONS  # noqa

NWORKERS = int(os.environ.get('VERIF_WORKERS', '16'))



PINNED = '5d16593'      # the commit the line numbers in properties.jsonl refer to (first commit of /repo)




HEAP_LEVEL_CLASSES = ('LEAK', 'QUEUED_MESSAGES_NOT_RELEASED', 'HEAP_NOT_RELEASED')

def as_built_note(prop):
    """The generators' own rule texts describe the first version of each workload; later additions are kept current in the manifest text."""
    try:
        import manifest_data
        return ' || workload and oracles as built (kept current): ' + manifest_data.CHECKS[prop]['text']
    except Exception:
        return ''


def anchored_functions(prop):
    """Names of the library functions whose bodies overlap the file:line ranges of the property's 'mechanism' anchors
    (line numbers looked up in the pinned commit; the names are then counted in the current tree's function-entry profile)."""
    sel = set()
    try:
        for line in open(os.path.join(VERIF, 'properties.jsonl')):
            pj = json.loads(line)
            if pj['id'] != prop:
                continue
            for m in pj['anchors']['mechanism']:
                for part in re.split(r';\s*', m['where']):
                    mm = re.match(r'\s*([\w/\.]+\.[ch]):([\d,\-\s]+)', part)
                    if not mm:
                        continue
                    r = subprocess.run(['git', '-C', os.environ.get('VERIF_ANCHOR_REPO', '/repo'), 'show', PINNED + ':' + mm.group(1)], capture_output=True, text=True, errors='replace')
                    if r.returncode != 0:
                        continue
                    fl = []
                    for i, l in enumerate(r.stdout.split('\n'), 1):
                        d = re.match(r'^(?:static\s+)?(?:inline\s+)?(?:const\s+)?[A-Za-z_][\w\s\*]*?\b(\w+)\s*\([^;]*$', l)
                        if d and l[:1] not in (' ', '\t', '#', '}', '/', '*') and d.group(1) not in ('if', 'while', 'for', 'switch', 'return'):
                            fl.append((i, d.group(1)))
                    for rng in mm.group(2).split(','):
                        rng = rng.strip()
                        if not rng:
                            continue
                        ab = rng.split('-')
                        a, b = int(ab[0]), int(ab[-1])
                        for k, (ln, fn) in enumerate(fl):
                            nxt = fl[k + 1][0] if k + 1 < len(fl) else 10 ** 9
                            if ln <= b and nxt > a:
                                sel.add(fn)
    except Exception:
        pass
    return sorted(sel)


def log(*a):
    print(*a, flush=True)


def build(variant):
    r = subprocess.run([os.path.join(VERIF, 'bin', 'build'), variant], capture_output=True, text=True)
    if r.returncode != 0:
        log(r.stdout[-3000:])
        log(r.stderr[-6000:])
        log('BUILD FAILED for variant', variant)
        sys.exit(2)
    return r.stdout.strip().splitlines()[-1]


SAN_RE = re.compile(r'(ERROR: AddressSanitizer: [\w-]+|ERROR: LeakSanitizer|WARNING: ThreadSanitizer: [\w -]+|runtime error: [^\n]*|UndefinedBehaviorSanitizer: [\w-]+|AddressSanitizer:DEADLYSIGNAL)')
FRAME_RE = re.compile(r'#\d+ 0x[0-9a-f]+ in (\w+) ([^\s]+)')


def sanitizer_signature(stderr):
    """class + site (top library frames) of a sanitizer report."""
    m = SAN_RE.search(stderr)
    if not m:
        return None
    cls = m.group(1)
    cls = re.sub(r'runtime error: .*', lambda mm: 'UBSAN: ' + re.sub(r'0x[0-9a-f]+|\d+', 'N', mm.group(0)[15:])[:80], cls)
    cls = cls.replace('ERROR: ', '').replace('WARNING: ', '')
    frames = []
    for fm in FRAME_RE.finditer(stderr[m.start():]):
        fn, where = fm.group(1), fm.group(2)
        if '/repo/' in where or fn.startswith('bidib_'):
            if fn not in frames:
                frames.append(fn)
        if len(frames) >= 2:
            break
    if cls.startswith('UBSAN') and not frames:
        mm = re.search(r'(/repo/\S+?):(\d+):\d+: runtime error', stderr)
        if mm:
            frames = [os.path.basename(mm.group(1)) + ':' + mm.group(2)]
    if 'ThreadSanitizer' in cls:
        # both access stacks matter: collect top library frame of each stack
        fr = []
        TS_FRAME = re.compile(r'#\d+ (\w+) (/\S+)')
        for blk in re.split(r'\n\s*\n', stderr[m.start():])[:4]:
            for fm in TS_FRAME.finditer(blk):
                if '/repo/' in fm.group(2) or fm.group(1).startswith('bidib_'):
                    fr.append(fm.group(1))
                    break
        frames = sorted(set(fr))[:3]
    return cls.strip(), '<'.join(frames) if frames else 'unknown'


def run_replay(binary, path, timeout=300, extra=None):
    """returns (status, cls, site, detail, stderr) ; status in ok|viol|crash|timeout|error"""
    env = dict(os.environ)
    env['TSAN_OPTIONS'] = env.get('TSAN_OPTIONS', '') + ':suppressions=' + os.path.join(VERIF, 'lib', 'tsan.supp')
    try:
        r = subprocess.run([binary, '--replay', path] + (extra or []), capture_output=True, text=True, errors='replace', timeout=timeout, env=env)
    except subprocess.TimeoutExpired:
        return ('timeout', 'WALLCLOCK_TIMEOUT', 'replay', '', '')
    out = r.stdout
    m = re.search(r'^REPLAY-VIOLATION ([^\t\n]*)\t([^\t\n]*)\t(.*)$', out, re.M)
    if m:
        return ('viol', m.group(1), m.group(2), m.group(3), r.stderr)
    if 'REPLAY-OK' in out and r.returncode == 0:
        return ('ok', '', '', '', r.stderr)
    sig = sanitizer_signature(r.stderr)
    if sig:
        return ('crash', sig[0], sig[1], r.stderr[-3000:], r.stderr)
    if r.returncode < 0 or r.returncode in (77, 66, 134, 139):
        return ('crash', 'SIGNAL_%d' % r.returncode, 'unknown', r.stderr[-2000:], r.stderr)
    return ('error', 'EXIT_%d' % r.returncode, 'replay', (r.stdout + r.stderr)[-2000:], r.stderr)


def load_known():
    p = os.path.join(VERIF, 'known_findings.json')
    if not os.path.exists(p):
        return {'known': [], 'fixed': []}
    return json.load(open(p))


def match_known(known, prop, cls, site):
    for k in known.get('known', []):
        if k['property'] != prop:
            continue
        if k.get('class') and k['class'] != cls:
            continue
        if k.get('site_re'):
            if not re.search(k['site_re'], site):
                continue
        elif k.get('site') and k['site'] != site:
            continue
        return k
    return None


# --------------------------------------------------------------------------- minimisation
def plan_size(p):
    n = 0
    for s in p.get('sessions', []):
        n += 1
        for ph in s.get('phases', []):
            n += 1 + len(ph.get('bus', [])) + len(ph.get('pre', []))
            for t in ph.get('tasks', []):
                n += 1 + len(t)
    n += len(p.get('bus', {}).get('answer_faults', [])) + len(p.get('bus', {}).get('slow_writes', []))
    return n


class Minimiser:
    def __init__(self, binary, plan, cls, site, workdir, budget_runs, budget_s):
        self.binary, self.cls, self.site = binary, cls, site
        self.best = plan
        self.workdir = workdir
        self.runs = 0
        self.budget_runs, self.deadline = budget_runs, time.time() + budget_s

    @staticmethod
    def normalise(cand):
        """keep derived parts of a plan consistent: a reference session always mirrors the last ordinary session"""
        ss = cand.get('sessions', [])
        base = [x for x in ss if 'reference_of' not in x]
        for x in ss:
            if 'reference_of' in x and base:
                src = base[-1]
                for k in ('start', 'phases', 'kind'):
                    if k in src:
                        x[k] = copy.deepcopy(src[k])
                x['reference_of'] = len(base) - 1
        cand['sessions'] = base + [x for x in ss if 'reference_of' in x and base]

    def test(self, cand):
        if self.runs >= self.budget_runs or time.time() > self.deadline:
            return False
        self.normalise(cand)
        self.runs += 1
        p = os.path.join(self.workdir, 'min-cand.json')
        json.dump(cand, open(p, 'w'))
        st, cls, site, _, _ = run_replay(self.binary, p, timeout=120)
        return st in ('viol', 'crash') and cls == self.cls and site == self.site

    def ddmin_list(self, get, put):
        """generic: shrink list obtained by get(plan) -> list; put(plan, newlist)"""
        lst = get(self.best)
        if not lst:
            return
        n = 2
        while len(lst) >= 1 and self.runs < self.budget_runs and time.time() < self.deadline:
            chunk = max(1, len(lst) // n)
            reduced = False
            i = 0
            while i < len(lst):
                cand_list = lst[:i] + lst[i + chunk:]
                cand = copy.deepcopy(self.best)
                put(cand, cand_list)
                if self.test(cand):
                    self.best = cand
                    lst = cand_list
                    reduced = True
                else:
                    i += chunk
            if not reduced:
                if chunk == 1:
                    break
                n = min(len(lst), n * 2)
            else:
                n = max(2, n - 1)

    def run(self):
        b = self.best
        # 1. whole sessions / phases / tasks
        def sess_get(p): return p.get('sessions', [])
        def sess_put(p, l): p['sessions'] = l
        if len(sess_get(b)) > 1:
            self.ddmin_list(sess_get, sess_put)
        for si in range(len(self.best.get('sessions', []))):
            self.ddmin_list(lambda p, si=si: p['sessions'][si].get('phases', []), lambda p, l, si=si: p['sessions'][si].__setitem__('phases', l))
            for pi in range(len(self.best['sessions'][si].get('phases', []))):
                ph = lambda p, si=si, pi=pi: p['sessions'][si]['phases'][pi]
                self.ddmin_list(lambda p: ph(p).get('tasks', []), lambda p, l: ph(p).__setitem__('tasks', l))
                self.ddmin_list(lambda p: ph(p).get('bus', []), lambda p, l: ph(p).__setitem__('bus', l))
                self.ddmin_list(lambda p: ph(p).get('pre', []), lambda p, l: ph(p).__setitem__('pre', l))
                for ti in range(len(ph(self.best).get('tasks', []))):
                    self.ddmin_list(lambda p, ti=ti: ph(p)['tasks'][ti], lambda p, l, ti=ti: ph(p)['tasks'].__setitem__(ti, l))
        # 2. faults
        self.ddmin_list(lambda p: p.get('bus', {}).get('answer_faults', []), lambda p, l: p['bus'].__setitem__('answer_faults', l))
        self.ddmin_list(lambda p: p.get('bus', {}).get('slow_writes', []), lambda p, l: p['bus'].__setitem__('slow_writes', l))
        # 3. schedule decisions (fewer forced context switches)
        self.ddmin_list(lambda p: p.get('decisions', []), lambda p, l: p.__setitem__('decisions', l))
        return self.best


# --------------------------------------------------------------------------- lock-order graph
def find_cycles(edges):
    """edges: list of dict a,am,b,bm. A cycle made only of read acquisitions of ONE rwlock is legal
    (recursive read locking under a reader-preferring rwlock); self-edges r->r on the same lock are skipped."""
    g = {}
    for e in edges:
        if e['a'] == e['b']:
            continue
        g.setdefault(e['a'], {}).setdefault(e['b'], []).append(e)
    cycles = []
    def dfs(start, node, path, seen):
        for nb, es in g.get(node, {}).items():
            if nb == start and len(path) >= 1:
                cycles.append(path + [(node, nb, es[0])])
            elif nb not in seen and nb > start:
                dfs(start, nb, path + [(node, nb, es[0])], seen | {nb})
    for s in sorted(g):
        dfs(s, s, [], {s})
    # a cycle in which every edge into a rwlock is a read acquisition and every hold of that rwlock is a read hold
    # cannot deadlock only if ALL involved locks are rwlocks held/acquired in read mode
    real = []
    for c in cycles:
        all_read = all(e['am'] == 'r' and e['bm'] == 'r' for (_, _, e) in c)
        if not all_read:
            real.append(c)
    return real


# --------------------------------------------------------------------------- main
def main():
    args = sys.argv[1:]
    if not args:
        log(__doc__)
        return 2
    prop = args[0]
    tier = os.environ.get('VERIF_TIER', 'quick')
    replay = None
    i = 1
    while i < len(args):
        if args[i] == '--tier':
            tier = args[i + 1]; i += 2
        elif args[i] == '--replay':
            replay = args[i + 1]; i += 2
        else:
            i += 1
    if prop not in TIERS:
        log('unknown property', prop)
        return 2
    cfg = dict(TIERS[prop][tier])
    if os.environ.get('VERIF_MUTANT'):
        # sensitivity runs against a deliberately broken scratch copy: a short minimisation is enough
        cfg['min_runs'], cfg['min_seconds'] = 40, 20
    variants = VARIANTS.get(prop, ['asan'])
    t_start = time.time()
    bins = {v: build(v) for v in variants}

    if replay:
        plan = json.load(open(replay))
        v = plan.get('variant', variants[0])
        if v not in bins:
            bins[v] = build(v)
        st, cls, site, detail, err = run_replay(bins[v], replay, extra=['--verbose'] if os.environ.get('VERIF_VERBOSE') else None)
        if st in ('viol', 'crash'):
            log('replay reproduces: class=%s site=%s' % (cls, site))
            log(detail[:3000])
            log('VIOLATION property=%s replay=%s' % (prop, replay))
            return 1
        if st == 'ok':
            log('replay ran clean (violation does not reproduce on the current tree)')
            return 0
        log('replay status', st, cls, site, detail[:2000])
        return 2

    seed_base = int(os.environ.get('VERIF_SEED', '0'))
    outdir = os.path.join(os.environ.get('VERIF_OUT_DIR', os.path.join(VERIF, 'out')), prop)
    shutil.rmtree(outdir, ignore_errors=True)
    os.makedirs(outdir, exist_ok=True)
    known = load_known()
    known_hits = {}
    unconfirmed_heap = []
    violations = []
    infra = []

    # ---- regression replays (minimised replay files of earlier findings; fixed ones must stay fixed)
    reg_dir = os.path.join(VERIF, 'replays', prop)
    reg_results = []
    for rp in sorted(glob.glob(os.path.join(reg_dir, '*.json'))):
        plan = json.load(open(rp))
        v = plan.get('variant', variants[0])
        if v not in bins:
            bins[v] = build(v)
        st, cls, site, detail, _ = run_replay(bins[v], rp)
        reg_results.append({'file': os.path.relpath(rp, VERIF), 'status': st, 'class': cls, 'site': site})
        if st in ('viol', 'crash'):
            k = match_known(known, prop, cls, site)
            if k:
                known_hits.setdefault(k['what'], 0)
                known_hits[k['what']] += 1
            else:
                violations.append({'class': cls, 'site': site, 'detail': detail, 'path': rp, 'seed': plan.get('seed', 0), 'variant': v})
        elif st != 'ok':
            infra.append('regression replay %s: %s %s' % (rp, st, cls))

    summaries = []
    total_cands = 0
    skipped = [0]
    ok_lines = [0]
    for variant in variants:
        if violations or infra:
            break
        vcfg = cfg if variant == variants[0] else cfg.get('secondary', {}).get(variant)
        if not vcfg:
            continue
        binary = bins[variant]
        count = vcfg['count']
        deadline = vcfg['seconds'] * float(os.environ.get('VERIF_TIME_SCALE', '1'))   # (smoke runs of a tier with a shorter search)
        seed0 = seed_base * 1000003 + vcfg.get('seed_offset', 1)
        vout = os.path.join(outdir, variant)
        os.makedirs(vout, exist_ok=True)
        env = dict(os.environ)
        env['TSAN_OPTIONS'] = 'suppressions=' + os.path.join(VERIF, 'lib', 'tsan.supp') + ':log_path=' + os.path.join(vout, 'tsan')
        env['ASAN_OPTIONS'] = 'log_path=' + os.path.join(vout, 'asan')
        env['UBSAN_OPTIONS'] = 'log_path=' + os.path.join(vout, 'ubsan')
        twice = str(vcfg.get('twice_every', 8))
        # worker state: next seed index (k) per worker
        workers = {}
        next_k = {w: w for w in range(NWORKERS)}
        t_end = time.time() + deadline
        cur_seed = {}

        def spawn(w):
            remaining = max(1.0, t_end - time.time())
            cmd = [binary, '--prop', prop, '--tier', tier, '--seed0', str(seed0), '--count', str(count), '--stride', str(NWORKERS),
                   '--offset', str(next_k[w]), '--outdir', vout, '--deadline-s', '%.1f' % remaining, '--twice-every', twice]
            p = subprocess.Popen(cmd, stdout=subprocess.PIPE, stderr=subprocess.PIPE, env=env, text=True, errors='replace')
            workers[w] = p

        for w in range(NWORKERS):
            if next_k[w] < count:
                spawn(w)
        pending_viol = []
        finished = set()
        hard_deadline = time.time() + deadline * 3 + 120
        while workers:
            if time.time() > hard_deadline:
                for p in workers.values():
                    p.kill()
                infra.append('wall-clock watchdog: workers did not finish (simulator hang)')
                break
            done_ws = []
            for w, p in list(workers.items()):
                try:
                    out, err = p.communicate(timeout=0.2)
                except subprocess.TimeoutExpired:
                    continue
                done_ws.append(w)
                last_start = None
                viol_line = None
                nondet = None
                oks = 0
                for line in out.splitlines():
                    if line.startswith('START '):
                        last_start = int(line.split()[1])
                    elif line.startswith('OK '):
                        oks += 1
                        ok_lines[0] += 1
                    elif line.startswith('VIOL '):
                        viol_line = line
                    elif line.startswith('NONDET '):
                        nondet = line
                    elif line.startswith('SUMMARY '):
                        summaries.append((variant, line.split(' ', 1)[1]))
                if p.returncode == 5 and last_start is not None and not viol_line:
                    # run skipped: it ended in a situation this property does not judge
                    skipped[0] += 1
                    next_k[w] = (last_start - seed0) + NWORKERS
                    continue
                if nondet:
                    infra.append('simulator nondeterminism (same seed, two hashes): ' + nondet)
                    continue
                if p.returncode == 0:
                    finished.add(w)
                    continue
                # worker died: violation or sanitizer crash at last_start
                if last_start is None:
                    infra.append('worker %d died before its first run (rc=%s): %s' % (w, p.returncode, err[-1500:]))
                    continue
                k_done = (last_start - seed0)
                next_k[w] = k_done + NWORKERS
                cand = os.path.join(vout, 'cand-%s-%d.json' % (prop, last_start))
                if viol_line:
                    m = re.match(r'VIOL (\d+) ([^\t]*)\t([^\t]*)\t(.*)', viol_line)
                    pending_viol.append({'seed': last_start, 'class': m.group(2), 'site': m.group(3), 'path': m.group(4), 'variant': variant, 'stderr': err})
                elif os.path.exists(cand):
                    sig = sanitizer_signature(err)
                    # sanitizer log may have gone to log_path files
                    if not sig:
                        for lp in glob.glob(os.path.join(vout, '*san.%d' % p.pid)):
                            sig = sig or sanitizer_signature(open(lp, errors='replace').read())
                    cls, site = sig if sig else ('CRASH_rc%d' % p.returncode, 'unknown')
                    pending_viol.append({'seed': last_start, 'class': cls, 'site': site, 'path': cand, 'variant': variant, 'stderr': err})
                else:
                    infra.append('worker %d died at seed %d without a candidate file (rc=%s): %s' % (w, last_start, p.returncode, err[-1500:]))
                    continue
            for w in done_ws:
                del workers[w]
            # handle violations: gate, known-matching
            for pv in pending_viol:
                total_cands += 1
                st1 = run_replay(binary, pv['path'])
                if st1[0] not in ('viol', 'crash'):
                    # Heap-level oracles compare allocator levels of the worker process (library-attributed live bytes after a session against
                    # an earlier level in the same run). The allocator of a process that has executed hundreds of runs is not part of the
                    # simulated world; a candidate of these classes that a fresh process does not confirm is dropped and counted, not reported.
                    if pv['class'] in HEAP_LEVEL_CLASSES:
                        unconfirmed_heap.append({'seed': pv['seed'], 'class': pv['class']})
                        continue
                    infra.append('violation at seed %d (%s/%s) does not reproduce in a fresh process: %s %s' % (pv['seed'], pv['class'], pv['site'], st1[0], st1[1]))
                    continue
                cls, site = st1[1], st1[2]
                st2 = run_replay(binary, pv['path'])
                if (st2[1], st2[2]) != (cls, site):
                    infra.append('violation at seed %d is not deterministic across two fresh replays: %s/%s vs %s/%s' % (pv['seed'], cls, site, st2[1], st2[2]))
                    continue
                pv['class'], pv['site'], pv['detail'] = cls, site, st1[3]
                k = match_known(known, prop, cls, site)
                if k:
                    known_hits.setdefault(k['what'], 0)
                    known_hits[k['what']] += 1
                else:
                    violations.append(pv)
            pending_viol = []
            if violations or infra:
                for p in workers.values():
                    p.kill()
                break
            # restart workers that died on a known finding
            for w in done_ws:
                if w not in finished and next_k[w] < count and time.time() < t_end and w not in workers:
                    spawn(w)
            time.sleep(0.02)

    wall = time.time() - t_start
    # ---- merge summaries
    merged = {'evaluations': 0, 'nontrivial': 0, 'probes': {}, 'faults_fired': {}, 'policies': {}, 'file_faults_fired': {}, 'steps': 0, 'switches': 0,
              'sim_us': 0, 'lock_contended': 0, 'overlap3': 0, 'max_tasks': 0, 'api_calls': 0, 'wire_msgs': 0, 'uplink_frames': 0, 'decision_points': 0, 'twice_checked': 0}
    distinct = set()
    shapes = set()
    samples = []
    edges = {}
    reach = {}
    rule = ''
    per_variant = {}
    for variant, sp in summaries:
        try:
            s = json.load(open(sp))
        except Exception as e:  # noqa
            infra.append('unreadable summary %s: %s' % (sp, e))
            continue
        per_variant[variant] = per_variant.get(variant, 0) + s['evaluations']
        for k in ('evaluations', 'nontrivial', 'steps', 'switches', 'sim_us', 'lock_contended', 'overlap3', 'api_calls', 'wire_msgs', 'uplink_frames', 'decision_points', 'twice_checked'):
            merged[k] += s.get(k, 0)
        merged['max_tasks'] = max(merged['max_tasks'], s.get('max_tasks', 0))
        for k in ('probes', 'faults_fired', 'policies', 'file_faults_fired'):
            for kk, vv in s.get(k, {}).items():
                merged[k][kk] = merged[k].get(kk, 0) + vv
        distinct.update(s.get('distinct_hashes', []))
        shapes.update(s.get('distinct_shapes', []))
        if len(samples) < 3:
            samples.extend(s.get('samples', [])[:1])
        for e in s.get('lock_order_edges', []):
            key = (e['a'], e['am'], e['b'], e['bm'])
            if key in edges:
                edges[key]['count'] += e['count']
            else:
                edges[key] = dict(e)
        for fn, c in s.get('fn_reach', {}).items():
            reach[fn] = reach.get(fn, 0) + c
        rule = s.get('rule', rule)

    # ---- property-specific global checks
    if prop in ('C11',) and not violations and not infra:
        cyc = find_cycles(list(edges.values()))
        for c in cyc:
            desc = ' -> '.join('%s(%s)@%s' % (a, e['am'], e['site_a']) for (a, b, e) in c) + ' -> ' + c[0][0]
            names = sorted(set(a for (a, b, e) in c))
            cls, site = 'LOCK_ORDER_CYCLE', '<'.join(names)
            k = match_known(known, prop, cls, site)
            if k:
                known_hits[k['what']] = known_hits.get(k['what'], 0) + 1
            else:
                p = os.path.join(outdir, 'lock-order-cycle.json')
                json.dump({'property': prop, 'violation': {'class': cls, 'site': site, 'detail': desc}, 'edges': [e for (_, _, e) in c]}, open(p, 'w'), indent=1)
                violations.append({'class': cls, 'site': site, 'detail': desc, 'path': p, 'seed': 0, 'variant': 'asan', 'no_min': True})

    # ---- report
    rc = 0
    final_paths = []
    for v in violations[:3]:
        path = v['path']
        if not v.get('no_min') and os.path.exists(path):
            try:
                plan = json.load(open(path))
                plan['variant'] = v.get('variant', 'asan')
                before = plan_size(plan)
                nd = len(plan.get('decisions', []))
                mn = Minimiser(bins[plan['variant']], plan, v['class'], v['site'], outdir, cfg.get('min_runs', 120), cfg.get('min_seconds', 60))
                best = mn.run()
                best['violation'] = {'class': v['class'], 'site': v['site'], 'detail': str(v.get('detail', ''))[:2500]}
                best['minimised_from'] = {'plan_items': before, 'decisions': nd, 'to_items': plan_size(best), 'to_decisions': len(best.get('decisions', [])), 'replays_used': mn.runs}
                final = os.path.join(outdir, 'violation-%s-%s.json' % (prop, v['seed']))
                json.dump(best, open(final, 'w'))
                st = run_replay(bins[plan['variant']], final)
                if st[0] in ('viol', 'crash') and (st[1], st[2]) == (v['class'], v['site']):
                    path = final
                else:
                    json.dump(plan, open(final, 'w'))
                    path = final
            except Exception as e:  # noqa
                log('minimisation failed:', e)
        log('violation: class=%s site=%s seed=%s' % (v['class'], v['site'], v['seed']))
        log('  ' + str(v.get('detail', ''))[:1500].replace('\n', '\n  '))
        log('VIOLATION property=%s replay=%s' % (prop, path))
        final_paths.append(path)
        rc = 1
    for what, n in known_hits.items():
        log('KNOWN-FINDING: property=%s %s (hit %d times in this run)' % (prop, what, n))
    if infra and rc == 0:
        for m in infra[:10]:
            log('INFRASTRUCTURE: ' + m)
        rc = 2

    # ---- evidence
    anchors = anchored_functions(prop)
    reach_sel = {fn: reach.get(fn, 0) for fn in sorted(set(anchors))}
    never_entered = [fn for fn, n in reach_sel.items() if n == 0]
    top_reach = dict(sorted(reach.items(), key=lambda kv: -kv[1])[:25])
    warnings = []
    for pn, pv in merged['probes'].items():
        if pv == 0:
            warnings.append('probe %s stuck at zero' % pn)
    for pn in cfg.get('required_probes', []):
        if merged['probes'].get(pn, 0) == 0 and merged['faults_fired'].get(pn, 0) == 0:
            warnings.append('required probe %s not hit' % pn)
    ev = {
        'property_id': prop, 'tier': tier, 'seed': seed_base, 'level': 'exploration',
        'coverage': {
            'evaluations': max(merged['evaluations'], ok_lines[0] + len(violations) + len(reg_results)),
            'distinct_nontrivial': len(distinct),
            'distinct_plan_shapes_among_nontrivial': len(shapes),
            'distinct_measure': 'distinct_nontrivial counts distinct (plan-shape hash, 64-bit trace hash over all scheduling decisions, wire bytes and oracle-visible results) pairs among the runs that satisfy the interest predicate in rule; distinct_plan_shapes_among_nontrivial counts the plan shapes alone (operation kinds and counts, not argument values or schedules)',
            'rule': rule + as_built_note(prop),
            'samples': samples[:3] if samples else [{'note': 'no non-trivial run recorded'}],
            'runs_per_variant': per_variant,
            'runs_per_hour': int(merged['evaluations'] / max(wall, 1e-3) * 3600),
            'seeds': {'first': seed_base * 1000003 + 1, 'count_limit': cfg['count'], 'workers': NWORKERS},
            'simulated_seconds': round(merged['sim_us'] / 1e6, 1),
            'scheduler': {'yield_points': merged['steps'], 'context_switches': merged['switches'], 'decision_points': merged['decision_points'],
                          'lock_contentions': merged['lock_contended'], 'three_way_lock_overlaps': merged['overlap3'], 'max_tasks_in_a_run': merged['max_tasks'],
                          'policy_mix': merged['policies']},
            'faults_fired': dict(merged['faults_fired'], **{('file:' + k): v for k, v in merged['file_faults_fired'].items()}),
            'probes': merged['probes'],
            'api_calls': merged['api_calls'], 'downlink_messages_decoded': merged['wire_msgs'], 'uplink_frames_delivered': merged['uplink_frames'],
            'anchored_function_calls': reach_sel, 'anchored_functions_never_entered': never_entered, 'most_called_library_functions': top_reach,
            'distinct_lock_order_edges': len(edges),
            'determinism': {'same_seed_twice_hash_checks': merged['twice_checked'], 'violation_candidates_gated': total_cands},
            'regression_replays': reg_results,
            'known_findings_hit': known_hits,
            'heap_level_candidates_not_confirmed_by_a_fresh_process': unconfirmed_heap,
            'components': COMPONENTS,
            'self_assessment_warnings': warnings,
            'interest_predicate_runs': merged['nontrivial'],
            'runs_skipped_not_judged': skipped[0],
        },
        'assumptions': ASSUMPTIONS,
        'wall_s': round(wall, 2),
        'violations': len(violations),
    }
    evdir = os.environ.get('VERIF_EVIDENCE_DIR', os.path.join(VERIF, 'evidence'))
    os.makedirs(evdir, exist_ok=True)
    json.dump(ev, open(os.path.join(evdir, prop + '.json'), 'w'), indent=1)
    log('%s %s: %d runs (%d non-trivial, %d distinct), %.0f simulated s, %.1f s wall, faults fired: %s' % (
        prop, tier, merged['evaluations'], merged['nontrivial'], len(distinct), merged['sim_us'] / 1e6, wall,
        json.dumps(dict(merged['faults_fired'], **{('file:' + k): v for k, v in merged['file_faults_fired'].items() if v}))))
    for w in warnings:
        log('warning: ' + w)
    return rc


if __name__ == '__main__':
    sys.exit(main())
